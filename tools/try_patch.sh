#!/bin/bash
# usage: tools/try_patch.sh <patch.diff> <Cxx> [Cyy ...]   — applies the patch to /repo, runs the quick checks, reverts.
set -u
patch=$(realpath "$1"); shift
cd /repo || exit 2
if [ -n "$(git status --porcelain)" ]; then echo "/repo not clean"; exit 2; fi
git apply "$patch" || { echo "patch does not apply"; exit 2; }
trap 'git -C /repo checkout -- . ; git -C /repo clean -fdq' EXIT
for c in "$@"; do
  cp /verif/evidence/$c.json /tmp/evidence-backup-$c.json 2>/dev/null
  out=$(cd /verif && VERIF_SEED=${VERIF_SEED:-1} ./run "$c" ${TIER:-quick} 2>&1); rc=$?
  echo "== $c exit=$rc: $(echo "$out" | grep -E '^(VIOLATION|OK|INCONCLUSIVE|KNOWN-FINDING|BUILD FAILED)' | head -3 | tr '\n' ' ')"
  cp /tmp/evidence-backup-$c.json /verif/evidence/$c.json 2>/dev/null; rm -f /tmp/evidence-backup-$c.json
  if [ -n "${VERBOSE:-}" ]; then echo "$out" | grep -v 'rapid\] draw' | tail -15; fi
done
rm -rf /verif/replays/*/found
