#!/bin/bash
# usage: tools/seed_matrix.sh [dir-glob...]  — for every seeded/* and sensitivity/* change (or the given dirs):
# apply it to /repo, run the quick check of the property it targets (plus the extra ones named in
# its meta.json "also_run"), revert, and print one line per (change, check). Nothing is committed in /repo.
cd "$(dirname "$0")/.."
dirs=("$@"); [ ${#dirs[@]} -eq 0 ] && dirs=(seeded/* sensitivity/*)
for d in "${dirs[@]}"; do
  [ -f "$d/patch.diff" ] || continue
  props=$(python3 - "$d" <<'PY'
import json,sys
m=json.load(open(sys.argv[1]+'/meta.json'))
ps=[m.get('property','')]+list(m.get('also_run',[]))
print(' '.join(p for p in ps if p))
PY
)
  res=$(tools/try_patch.sh "$d/patch.diff" $props 2>&1 | grep '^==' | sed -E 's/KNOWN-FINDING[^=]*\(key=[^)]*\)//; s/replay=[^ ]*//g' | cut -c1-90 | tr '\n' ';')
  echo "$d: $res"
done
