#!/bin/bash
# usage: tools/seed_matrix.sh [-j N] [dir...]  — for every seeded/* and sensitivity/* change (or the given dirs):
# apply it to a scratch worktree of /repo HEAD, run the quick check of the property it targets (plus the extra
# ones named in its meta.json "also_run") from a scratch copy of /verif, and print one line per change.
# Neither /repo nor /verif is touched (tools/try_patch_scratch.sh); N changes are processed at a time.
cd "$(dirname "$0")/.."
jobs=5
if [ "$1" = "-j" ]; then jobs=$2; shift; shift; fi
dirs=("$@"); [ ${#dirs[@]} -eq 0 ] && dirs=(seeded/agent-* sensitivity/*)
one() {
  d=$1
  [ -f "$d/patch.diff" ] || exit 0
  props=$(python3 - "$d" <<'PY'
import json,sys
m=json.load(open(sys.argv[1]+'/meta.json'))
ps=[m.get('property','')]+list(m.get('also_run',[]))
print(' '.join(p for p in ps if p))
PY
)
  res=$(tools/try_patch_scratch.sh "$d/patch.diff" $props 2>&1 | grep '^==' | sed -E 's/replay=[^ ]*//g' | cut -c1-90 | tr '\n' ';')
  echo "$d: $res"
}
export -f one
printf '%s\n' "${dirs[@]}" | xargs -P "$jobs" -I{} bash -c 'one {}'
