#!/bin/bash
# usage: tools/run_some.sh <quick|thorough> Cxx [Cyy...] — runs the given checks from this copy of /verif, one line each
tier=$1; shift
cd "$(dirname "$0")/.."
for c in "$@"; do
  t0=$(date +%s)
  out=$(VERIF_SEED=${VERIF_SEED:-1} ./run $c $tier 2>&1); rc=$?
  echo "$c exit=$rc $(( $(date +%s)-t0 ))s: $(echo "$out" | grep -E '^(VIOLATION|OK|INCONCLUSIVE|KNOWN-FINDING|BUILD FAILED)' | cut -c1-160 | head -3 | tr '\n' ' ')"
done
