#!/usr/bin/env python3
"""Refreshes, in DESIGN.md section 5, the *Tests*, *Generated / oracle / non-trivial* and *Limits*
paragraphs of every property from checks_config.py (the same texts go into MANIFEST.json and the
evidence files). The *On this tree* and *Changes that trip it* paragraphs are hand-written and kept."""
import os, re, sys
ROOT = os.path.dirname(os.path.dirname(os.path.abspath(__file__)))
sys.path.insert(0, ROOT)
from checks_config import CHECKS

p = os.path.join(ROOT, "DESIGN.md")
s = open(p).read()
for pid, c in sorted(CHECKS.items()):
    m = re.search(r"^### %s — .*$" % pid, s, re.M)
    if not m:
        print("no section for", pid); continue
    start = m.end()
    nxt = re.search(r"^(### C\d\d — |## 6\.|-{20,})", s[start:], re.M)
    end = start + nxt.start()
    body = s[start:end]
    tests = []
    for t in c["tests"]:
        q, th = t["quick"], t["thorough"]
        qs = "quick %d" % q["checks"] + (" × %d shards" % q["shards"] if q["shards"] > 1 else "")
        ts = "thorough %d × %d shards" % (th["checks"], th["shards"])
        tests.append("`%s` (%s, %s)" % (t["name"], qs, ts))
    for f in c.get("fuzz", []):
        tests.append("`%s` (native fuzz %s, thorough only)" % (f[0], f[1]))
    new_tests = "*Tests:* " + ", ".join(tests) + ". *Level:* %s." % c["level"]
    new_rule = "*Generated / oracle / non-trivial:* " + c["rule"].rstrip(".") + "."
    new_lim = "*Limits:* " + c["level_text"].rstrip() + " " + c["level_note"].rstrip()
    body2 = re.sub(r"^\*Tests:\*.*$", lambda _: new_tests, body, count=1, flags=re.M)
    body2 = re.sub(r"^\*Generated / oracle / non-trivial:\*.*$", lambda _: new_rule, body2, count=1, flags=re.M)
    body2 = re.sub(r"^\*Limits:\*.*$", lambda _: new_lim, body2, count=1, flags=re.M)
    s = s[:start] + body2 + s[end:]
open(p, "w").write(s)
print("DESIGN.md section 5 refreshed")
