#!/bin/bash
# usage: tools/verify_seed.sh <worktree> — confirms a seeded change in its scratch worktree:
# builds (with and without -tags verif), existing suite passes with the change (demo skipped),
# demo fails with the change and passes without it. Prints one summary line.
wt=$1
export GOFLAGS=-mod=mod GOPROXY=off GOSUMDB=off GOTOOLCHAIN=local
cd "$wt" || exit 2
demo=$(grep -ho 'TestSeed[A-Za-z0-9_]*' _seed/meta.json _seed/*.txt 2>/dev/null | head -1)
demopkg=$(grep -ho '\./[a-z/]*' _seed/meta.json | grep -v '^\./\.\.\.' | head -1)
[ -z "$demopkg" ] && demopkg=./tests/
b1=fail; b2=fail; suite=fail; dwith=?; dwithout=?
go build ./... >/dev/null 2>&1 && b1=ok
go build -tags verif ./... >/dev/null 2>&1 && b2=ok
if go test -vet=off -count=1 -timeout 25m -skip 'TestSeed' ./... > /tmp/seed_suite_$$.log 2>&1; then suite=ok; fi
go test -vet=off -count=1 -timeout 10m -run "$demo" $demopkg > /tmp/seed_demo_$$.log 2>&1 && dwith=passes || dwith=fails
git apply -R _seed/patch.diff || { echo "cannot reverse patch"; exit 2; }
go test -vet=off -count=1 -timeout 10m -run "$demo" $demopkg > /tmp/seed_demo2_$$.log 2>&1 && dwithout=passes || dwithout=fails
git apply _seed/patch.diff
git checkout go.sum 2>/dev/null
echo "SEED $wt demo=$demo pkg=$demopkg build=$b1 build_verif=$b2 suite_with_change=$suite demo_with_change=$dwith demo_without_change=$dwithout"
grep -E '^(FAIL|---)' /tmp/seed_suite_$$.log | head -5
rm -f /tmp/seed_suite_$$.log /tmp/seed_demo_$$.log /tmp/seed_demo2_$$.log
