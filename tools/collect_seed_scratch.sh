#!/bin/bash
# usage: tools/collect_seed_scratch.sh <worktree-suffix e.g. c07c> <dest e.g. agent-c07-3> <Cxx> [Cyy...]
# like collect_seed.sh, but the checks run against a scratch copy (try_patch_scratch.sh); /repo is not touched
wt=/tmp/wt-$1; dest=/verif/seeded/$2; shift; shift
mkdir -p "$dest"
for f in patch.diff meta.json demo_cmd.txt README.txt; do [ -f "$wt/_seed/$f" ] && cp "$wt/_seed/$f" "$dest/"; done
cp "$wt"/_seed/*_test.go "$dest/" 2>/dev/null
(cd /repo && git apply --check "$dest/patch.diff") || { echo "PATCH DOES NOT APPLY to /repo HEAD"; exit 1; }
/verif/tools/try_patch_scratch.sh "$dest/patch.diff" "$@" 2>&1 | cut -c1-220
