#!/bin/bash
# usage: tools/run_all.sh [quick|thorough] — runs every claimed check on the current tree, prints one line each
tier=${1:-quick}
cd "$(dirname "$0")/.."
for c in $(python3 -c "import json;print(' '.join(x['property_id'] for x in json.load(open('MANIFEST.json'))['checks']))"); do
  t0=$(date +%s)
  out=$(VERIF_SEED=${VERIF_SEED:-1} ./run $c $tier 2>&1); rc=$?
  echo "$c exit=$rc $(( $(date +%s)-t0 ))s: $(echo "$out" | grep -E '^(VIOLATION|OK|INCONCLUSIVE|KNOWN-FINDING|BUILD FAILED)' | head -3 | tr '\n' ' ')"
done
