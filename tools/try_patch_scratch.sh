#!/bin/bash
# usage: tools/try_patch_scratch.sh <patch.diff> <Cxx> [Cyy ...]
# Like try_patch.sh but touches neither /repo nor /verif: a scratch worktree of /repo HEAD gets the patch, a
# scratch copy of /verif (working tree) is pointed at it, the quick checks run there, both are removed.
# For experiments while a long run is using /repo; results that are kept are re-confirmed with try_patch.sh.
set -u
if [ "$1" = "-" ]; then patch=""; else patch=$(realpath "$1"); fi; shift   # "-": no patch, the unchanged HEAD
S=$(mktemp -d /tmp/vscratch.XXXXXX)
trap 'git -C /repo worktree remove --force "$S/repo" 2>/dev/null; git -C /repo worktree prune; rm -rf "$S"' EXIT
git -C /repo worktree add -q --detach "$S/repo" HEAD || exit 2
[ -z "$patch" ] || (cd "$S/repo" && git apply "$patch") || { echo "patch does not apply"; exit 2; }
mkdir "$S/verif"
rsync -a --exclude .git --exclude .build --exclude 'replays/*/found' /verif/ "$S/verif/"
sed -i "s#=> /repo#=> $S/repo#" "$S/verif/harness/go.mod"
for c in "$@"; do
  out=$(cd "$S/verif" && VERIF_SEED=${VERIF_SEED:-1} ./run "$c" ${TIER:-quick} 2>&1); rc=$?
  echo "== $c exit=$rc: $(echo "$out" | grep -E '^(VIOLATION|OK|INCONCLUSIVE|BUILD FAILED)' | head -3 | sed "s#$S##g" | tr '\n' ' ')"
  if [ -n "${VERBOSE:-}" ]; then echo "$out" | grep -v 'rapid\] draw' | tail -25; fi
done
