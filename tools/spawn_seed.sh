#!/bin/bash
# usage: tools/spawn_seed.sh C13 [suffix] — creates a scratch worktree of /repo HEAD and the agent prompt file
id=$1; suf=${2:-}
lc=$(echo "$id" | tr A-Z a-z)$suf
git -C /repo worktree add -q --detach /tmp/wt-$lc HEAD || exit 1
python3 - "$id" "$lc" <<'PY'
import json,sys
id,lc=sys.argv[1],sys.argv[2]
for l in open('/verif/properties.jsonl'):
    d=json.loads(l)
    if d['id']==id:
        prop="%s — %s\n\n%s\n\nQuantified over: %s\n"%(d['id'],d['title'],d['statement'],d['quantifier']['text'])
t=open('/verif/tools/agent_prompt_template.txt').read()
open('/tmp/agent-%s.txt'%lc,'w').write(t.replace('__WT__','/tmp/wt-%s'%lc).replace('__PROP__',prop).replace('__ID__',id))
print('/tmp/agent-%s.txt'%lc)
PY
