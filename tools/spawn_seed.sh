#!/bin/bash
# usage: tools/spawn_seed.sh C13 [suffix] — creates a scratch worktree of /repo HEAD and the agent prompt file
id=$1; suf=${2:-}
lc=$(echo "$id" | tr A-Z a-z)$suf
git -C /repo worktree add -q --detach /tmp/wt-$lc HEAD || exit 1
python3 - "$id" "$lc" <<'PY'
import json,sys
id,lc=sys.argv[1],sys.argv[2]
for l in open('/verif/properties.jsonl'):
    d=json.loads(l)
    if d['id']==id:
        prop="%s — %s\n\n%s\n\nQuantified over: %s\n"%(d['id'],d['title'],d['statement'],d['quantifier']['text'])
t=open('/verif/tools/agent_prompt_template.txt').read()
open('/tmp/agent-%s.txt'%lc,'w').write(t.replace('__WT__','/tmp/wt-%s'%lc).replace('__PROP__',prop).replace('__ID__',id))
import glob
prev=[]
for f in sorted(glob.glob('/verif/seeded/agent-%s-*/meta.json'%id.lower())):
    try: prev.append(json.load(open(f)).get('summary','')[:420])
    except Exception: pass
if prev:
    with open('/tmp/agent-%s.txt'%lc,'a') as o:
        o.write("\n\nIMPORTANT — earlier, independent attempts at this task already used the following ideas, so you must pick a DIFFERENT mechanism (preferably in a different function or file, exercising a different part of the property's statement):\n")
        for x in prev: o.write('  - "%s"\n'%x.replace('\n',' '))
        o.write("Also note: test binaries of this project ignore SIGTERM (use `kill -9` if you must stop one), several other agents are running test suites on this machine at the same time, so use generous timeouts in your demo; and the `\":!_seed\"` pathspec does not work in this git: use `git diff -- . \":(exclude)_seed\"`.\n")
print('/tmp/agent-%s.txt'%lc)
PY
