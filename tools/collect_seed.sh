#!/bin/bash
# usage: tools/collect_seed.sh <worktree-suffix e.g. c07b> <dest e.g. agent-c07-2> <Cxx> [Cyy...]
# copies the agent's deliverables into seeded/<dest>/ and runs the given quick checks against the patch
wt=/tmp/wt-$1; dest=/verif/seeded/$2; shift; shift
mkdir -p "$dest"
for f in patch.diff meta.json demo_cmd.txt README.txt; do [ -f "$wt/_seed/$f" ] && cp "$wt/_seed/$f" "$dest/"; done
cp "$wt"/_seed/*_test.go "$dest/" 2>/dev/null
(cd /repo && git apply --check "$dest/patch.diff") || { echo "PATCH DOES NOT APPLY to /repo HEAD"; exit 1; }
/verif/tools/try_patch.sh "$dest/patch.diff" "$@" 2>&1 | sed 's/KNOWN-FINDING.*(key=C03-forged-author-key)//' | cut -c1-220
