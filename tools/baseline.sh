#!/bin/bash
# runs the repository's baseline suite (guard off) and compares with BASELINE.json; prints a one-line verdict
cd /repo || exit 2
export GOFLAGS=-mod=mod GOPROXY=off GOSUMDB=off GOTOOLCHAIN=local
out=${1:-/tmp/baseline_run.json}
go test -json -vet=off -count=1 -timeout 25m ./... > "$out" 2>&1
python3 - "$out" <<'PY'
import json,sys
passed=set(); failed=set()
for l in open(sys.argv[1]):
    try: d=json.loads(l)
    except: continue
    if d.get('Test') and d.get('Action') in('pass','fail'):
        (passed if d['Action']=='pass' else failed).add(d['Package']+'::'+d['Test'])
b=set(json.load(open('/root/.vp/BASELINE.json'))['stable_pass'])
print("BASELINE passed=%d failed=%d missing=%s failed_list=%s" % (len(passed),len(failed),sorted(b-passed)[:8],sorted(failed)[:8]))
sys.exit(0 if not failed and not (b-passed) else 1)
PY
