#!/opt/veriftools/pyvenv/bin/python
import json, glob, jsonschema, sys
jsonschema.validate(json.load(open('/verif/MANIFEST.json')), json.load(open('/root/.vp/MANIFEST.schema.json')))
es = json.load(open('/root/.vp/EVIDENCE.schema.json'))
bad = 0
for f in sorted(glob.glob('/verif/evidence/*.json')):
    try:
        jsonschema.validate(json.load(open(f)), es)
    except Exception as e:
        bad += 1
        print("INVALID", f, str(e)[:300])
print("manifest valid; evidence files checked:", len(glob.glob('/verif/evidence/*.json')), "invalid:", bad)
sys.exit(1 if bad else 0)
