"""Per-property configuration of the driver: which Go tests decide the property, how many
generated cases per tier, and the texts that go into evidence and MANIFEST.json."""


def T(name, quick, thorough, qshards=1, tshards=8, qtimeout=600, ttimeout=3000, shrink="20s"):
    return {"name": name,
            "quick": {"checks": quick, "shards": qshards, "timeout": qtimeout, "shrinktime": shrink},
            "thorough": {"checks": thorough, "shards": tshards, "timeout": ttimeout, "shrinktime": "60s"}}


TRUST = ["go-ipfs-log (entry encoding, hashing, signatures, Join) is the trusted base for building entries",
         "kubo offline node, libp2p event bus, go-datastore are trusted",
         "the simulated pubsub / direct channel / block exchange stand in for the network (harness/world)"]

CHECKS = {
    "C07": {
        "tests": [T("TestC07", 300, 2500)],
        "level": "exploration",
        "technique": "property-based testing (rapid): generated multi-writer Put/PutBatch/PutAll/Delete/sync histories vs. an LWW reference model, checked after every step",
        "rule": "rapid draws 1-3 writer replicas of one docstore (replication off, merges by manual Sync so the harness knows who has seen what) and up to 14 (quick) / 24 (thorough) operations over a pool of 10 mixed-case keys, plus up to 5 Get/Query probes evaluated on every replica after every step; oracle = fold of the harness's own operations in (Lamport time, clock id) order, which must also equal Values(); non-trivial = some key received both a single Put/Delete and a PutAll membership; distinct = SHA-1 of the case JSON",
        "level_text": "Generated histories against an explicit reference model; no exhaustiveness claimed.",
        "level_note": "Trusted: go-ipfs-log clocks/encoding, JSON marshalling of documents. Search keys with spaces and empty document keys are outside the stated domain and not generated.",
        "design_ref": "5/C07",
        "assumptions": TRUST,
    },
}

# Properties not claimed (with reason). Filled/emptied as checks are built.
NOT_APPLICABLE = {}

HOOK_COMMITS = ["cd541b0", "94bb9f9", "ab6c13a"]
