"""Per-property configuration of the driver: which Go tests decide the property, how many
generated cases per tier, and the texts that go into evidence and MANIFEST.json."""


def T(name, quick, thorough, qshards=1, tshards=8, qtimeout=600, ttimeout=3000, shrink="20s"):
    return {"name": name,
            "quick": {"checks": quick, "shards": qshards, "timeout": qtimeout, "shrinktime": shrink},
            "thorough": {"checks": thorough, "shards": tshards, "timeout": ttimeout, "shrinktime": "60s"}}


TRUST = ["go-ipfs-log (entry encoding, hashing, signatures, Join) is the trusted base for building entries",
         "kubo offline node, libp2p event bus, go-datastore are trusted",
         "the simulated pubsub / direct channel / block exchange stand in for the network (harness/world)"]

CHECKS = {
    "C07": {
        "tests": [T("TestC07", 300, 2500)],
        "level": "exploration",
        "technique": "property-based testing (rapid): generated multi-writer Put/PutBatch/PutAll/Delete/sync histories vs. an LWW reference model, checked after every step",
        "rule": "rapid draws 1-3 writer replicas of one docstore (replication off, merges by manual Sync so the harness knows who has seen what) and up to 14 (quick) / 24 (thorough) operations (Put, PutBatch, PutAll, Delete, sync, restart of a replica with Load(-1)) over a pool of 10 mixed-case keys, plus up to 5 Get/Query probes evaluated on every replica after every step; oracle = fold of the harness's own operations in (Lamport time, clock id) order, which must also equal Values(); non-trivial = some key received both a single Put/Delete and a PutAll membership; distinct = SHA-1 of the case JSON",
        "level_text": "Generated histories against an explicit reference model; no exhaustiveness claimed.",
        "level_note": "Trusted: go-ipfs-log clocks/encoding, JSON marshalling of documents. Search keys with spaces and empty document keys are outside the stated domain and not generated.",
        "design_ref": "5/C07",
        "assumptions": TRUST,
    },
}

# Properties not claimed (with reason). Filled/emptied as checks are built.
NOT_APPLICABLE = {}

HOOK_COMMITS = ["cd541b0", "94bb9f9", "ab6c13a", "00dbf96", "63e0ad6"]

CHECKS["C06"] = {
    "tests": [T("TestC06", 300, 2500)],
    "level": "exploration",
    "technique": "property-based testing (rapid): generated multi-writer Put/Delete/sync histories vs. an LWW reference model and an independent (time,id) order, checked after every step on every replica",
    "rule": "rapid draws 1-3 writer replicas of one keyvalue store (replication off; merges by manual Sync so the harness records each write's causal past) and up to 16 (quick) / 30 (thorough) operations - Put, Delete, sync, restart of a replica (instance closed, a new one on the same disk, Load(-1): the view is rebuilt from storage), and Put/Delete with a merge of another replica's log completing inside the write call (the writer is parked at the hook between persisting its head and refreshing its view) - over 8 keys (ASCII, mixed case, empty, unicode, with space, long) and 6 value shapes (nil, empty, text, binary, JSON, 3 KB); after every step every replica is compared: Values() == entries sorted by (Lamport time, clock id) and extends the recorded happens-before, Get(k) for every pool key and All() == LWW fold of the harness's own operations in that order (nil and empty values identified); non-trivial = a key touched by >=2 writers with a delete among the operations; distinct = SHA-1 of the case JSON",
    "level_text": "Generated histories against an explicit reference model; no exhaustiveness claimed.",
    "level_note": "Trusted: go-ipfs-log clocks and encoding. 'At every moment' is read as 'at every rest point after each API step' (a reader cannot observe log and view atomically during a merge).",
    "design_ref": "5/C06",
    "assumptions": TRUST,
}

CHECKS["C08"] = {
    "tests": [T("TestC08", 200, 2000)],
    "level": "exploration",
    "technique": "property-based testing (rapid): generated multi-writer event-log histories merged into an observer in increments; subsequence/order invariants over successive listings plus enumerated gt/gte/lt/lte x amount windows vs. a window model",
    "rule": "rapid draws 2-3 writers and an observer (replication off, manual Sync), up to 18 (quick) / 36 (thorough) add/merge/observe/reopen steps (reopen: a writer or the observer restarts and reloads from storage); after every step on every replica List(-1) == Values() == entries sorted by (time,id) and extending the recorded happens-before, and the observer's previous listing must be a subsequence of the new one; on the final logs of the observer and of writer 0 every bound kind {none,gt,gte,lt,lte} x positions (all for n<=6, else first/last/3 drawn) x amounts {unset,0,1,2,n-1,n,n+3,-1,-7, 2 drawn} is compared with the window model, and Get(hash) for every entry; non-trivial = an increment placed an entry before an already listed one AND some window was cut by both bound and amount; distinct = SHA-1 of the case JSON",
    "level_text": "Generated histories, enumerated window options per history; no exhaustiveness claimed over histories.",
    "level_note": "Bounds that are not entries of the log are excluded (undocumented quirk, per the property). Amount unset or 0 means 1 (pinned by the existing test suite).",
    "design_ref": "5/C08",
    "assumptions": TRUST,
}

CHECKS["C15"] = {
    "tests": [T("TestC15Grid", 1, 1, qshards=1, tshards=4), T("TestC15", 250, 2500)],
    "level": "exploration",
    "technique": "exhaustive enumeration of (chain length, limit) for single-writer logs + property-based testing (rapid) of multi-head persisted logs; oracle = count/order/newest/most-recent-n invariants against the recorded full log",
    "rule": "TestC15Grid enumerates every single-writer chain length T in 0..12 x every limit in [-3, T+5] (alternating per-call limit and MaxHistory via a wrapping store constructor) plus chains of 20/40/70 entries (where skip references matter) at 7 limits each; TestC15 draws logs with 1-2 other writers (local runs, remote runs, merges => several cached heads, stale _remoteHeads) and a limit from [-3,60]; each case: build the log, stop the instance, cut the peer off, restart on the same disk, Load(limit), then: Load returned nil, exactly min(n,total) entries (all for n<=0), listed as a subsequence of the pre-restart Values() order, newest entry included, and for a single writer (or n<=0) exactly the most recent ones; a panic in a goroutine kills the test process and is confirmed by the driver by re-executing the journaled case; non-trivial = limit >= total, or limit <= 0, or >= 2 cached heads; distinct = SHA-1 of the case JSON",
    "level_text": "The single-writer (T<=12) x limit grid is enumerated completely in both tiers; multi-head logs are sampled.",
    "level_note": "Trusted: go-ipfs-log fetcher and Join (the limit-beyond-log panic originates there and is worked around at go-orbit-db's call site). Restart = instance closed and re-created on the same recorded datastore and block store.",
    "design_ref": "5/C15",
    "assumptions": TRUST,
}

CHECKS["C13"] = {
    "tests": [T("TestC13", 150, 1500)],
    "level": "exploration",
    "technique": "property-based testing (rapid): generated log shapes and payload sizes, snapshot save / fresh-instance load round trip compared field by field",
    "rule": "rapid draws a store type (eventlog/keyvalue/docstore), 0-2 other writers, up to 7 steps (runs of local writes, remote writes, merges => empty, chain, forked, multi-writer, replicated logs), payload sizes from 0 to 300 KB weighted on the 16-bit entry-JSON boundary (raw 36300-37100) and on large entries that still fit (several exceed one 256 KiB UnixFS chunk), and optionally a replication left in progress (fetches parked by the harness) while SaveSnapshot runs; oracle: a panic in SaveSnapshot or LoadFromSnapshot is a violation, an error from SaveSnapshot is accepted, otherwise a fresh instance on the same disk (peer cut off) must LoadFromSnapshot without error and show the same entry set, Values() order, heads and view (with a saved non-empty queue: a superset containing the saved entries in the same relative order); In one case in three a goroutine keeps writing small local entries while SaveSnapshot runs (after 20 extra writes, so that the save takes a while): the snapshot must then load on the fresh instance to a consistent state between the one before and the one after the save - everything held before the save, nothing that was never written, Values() in (time,id) order, view == replay of the loaded log. non-trivial = log holds a replicated entry, or an entry whose JSON exceeds 60000 bytes, or replication was in progress; distinct = SHA-1 of the case JSON",
    "level_text": "Generated round trips over real kubo UnixFS; no exhaustiveness claimed.",
    "level_note": "Trusted: kubo UnixFS add/get, go-ipfs-log NewFromJSON. The snapshot is reloaded by a fresh OrbitDB instance on the same recorded datastore, without Load.",
    "design_ref": "5/C13",
    "assumptions": TRUST,
}

CHECKS["C17"] = {
    "tests": [T("TestC17Grid", 1, 1, qshards=4, tshards=4), T("TestC17", 60, 1200)],
    "level": "fault_enumeration",
    "technique": "schedule enumeration through the verif hooks between log append and head persistence and between head persistence and the view update (all release orders for k<=4 at the first point, both points for k<=3) + property-based testing (rapid) of larger bursts; oracle = acknowledged entries distinct, all listed, all recovered after restart+Load",
    "rule": "k goroutines each issue one write on the same store; the hook point store.addop.appended parks each writer after its append, the controller releases parked writers by a priority vector, waiting for each released call to return (so the persist order is the release order). With the post option the writers also park at store.addop.persisted (after the head is on disk, before the view update and the return) with a second priority vector and a drawn bit saying which class goes first, so that a writer sits in the later half of its call while others append, persist and return. TestC17Grid enumerates every priority permutation for k=2,3,4 on eventlog and keyvalue stores, and for k=2,3 every pair of permutations with the post option (144 cases); TestC17 draws k in 2..8, 0-3 sequential pre-writes, 1-2 bursts, any store type, random priority permutations and the post option half of the time. Oracle: every successful call returned a distinct entry, all are in the log and in Values(), the view (listing / map / documents) equals the last-writer-wins replay of the log the store holds, and after stopping the instance, restarting on the same disk and Load(-1) all are still listed and the view is again the replay of the log. Writers held back by a lock (as the repair adds) make part of the order infeasible; this is counted (label), never reported. non-trivial = a writer was parked between append and persist while another write call was in flight; distinct = SHA-1 of the case JSON",
    "level_text": "All k! release orders at the append/persist point for k<=4 (and all pairs of orders at both points for k<=3) are enumerated in both tiers; larger k sampled. Interleavings at other instructions are reached only by chance.",
    "level_note": "The harness owns the schedule points between Append and the _localHeads Put and between that Put and updateIndex; trusted: go-ipfs-log's Append lock.",
    "design_ref": "5/C17",
    "assumptions": TRUST,
}

CHECKS["C16"] = {
    "tests": [T("TestC16Emitter", 1500, 20000), T("TestC16Store", 120, 1500), T("TestC16Strict", 120, 1500), T("TestC16GatedIndex", 120, 1500), T("TestC16Refused", 150, 2000)],
    "level": "exploration",
    "technique": "property-based testing (rapid) with a harness-owned schedule point in the legacy emitter's drainer; sequence oracle (received == emitted, in order, once) and in-handler state queries on store events",
    "rule": "TestC16Emitter: rapid draws up to 14 steps of emit m (1-4 or 14-40 events) / read k / hold (park the drainer at the hook between taking an event off the overflow queue and sending it) / release on a bare events.EventEmitter, one case in four ending with the pattern fill (emit until exactly 17+b events are unread: channel full, one in the drainer's hand, b=1-3 queued) / hold / read 1-5 / emit 1-3 / release; at the end everything is released and the subscriber must have received exactly 0..N-1 in order; non-trivial = the overflow queue was in use (>17 undelivered events) AND the drainer was held at least once. TestC16Store: rapid draws a store (eventlog/keyvalue), 0-2 other writers, up to 10 steps of local write runs (1-4 or 15-30), remote writes and merges; an event-bus subscriber and a legacy-channel subscriber that stalls for a drawn number of steps and then reads slowly both query the store from inside their handler (OpLog().Get(hash), listing contains it / Get(key) is the announced value or a later one); oracle: exactly one write event per successful write in write order, one replicated event per merged batch (hook count), every replicated entry announced, state never behind the event, and the legacy subscriber sees the same sequence as the bus; non-trivial = >16 writes and at least one replication. TestC16Strict (same generator): the subscriber's channel has NO buffer and the harness refuses to receive until the view reflects the write / the merged batch (batches are reported by the replicator hook); the bus delivers synchronously, so a store that emits before updating its state parks inside Emit with the state lacking the entry - a state-based, non-racy verdict; then the event must arrive and carry exactly that entry / batch; non-trivial = at least one local write and one merged batch. TestC16GatedIndex: a harness-owned store type (plain BaseStore with an index whose UpdateIndex can be held) keeps one writer inside the index update while 0-4 further writers and optionally a replication run; no write/replicated event may be received for an entry the index does not hold, every acknowledged write reaches the index, one write event per write; non-trivial = another writer or a merge overlapped the held update. TestC16Refused: the hostile-delivery scenarios of C03 (a non-writer's entries delivered as heads by Sync/topic/direct channel, or as the ancestor or skip reference of an authorised colluder's head, chains of 1-3) with a subscriber that, at the moment it receives each replicated event, looks up every announced entry in the store's log: an event announcing an entry the store refused (or does not hold yet) is a violation; non-trivial = the victim fetched the hostile blocks and at least one replicated event was seen; distinct = SHA-1 of the case JSON",
    "level_text": "Generated schedules/histories; the one harness-owned interleaving point is the drainer hook. Other interleavings are reached by chance only.",
    "level_note": "Loss is judged after a 20 s wait with everything released (a wait bound, the only place a clock ends a positive claim without a state-based rest detector: the bare emitter has no other observable). A failure must reproduce in the driver's re-execution to be reported.",
    "design_ref": "5/C16",
    "assumptions": TRUST,
}

CHECKS["C19"] = {
    "tests": [T("TestC19", 150, 2500)],
    "level": "exploration",
    "technique": "property-based testing (rapid): generated histories of writes, gated replications, reopen and snapshot cycles with a continuous (progress,max) sampler; monotonicity invariant over the sampled series plus rest-state bounds",
    "rule": "rapid draws a store type, 1-2 other writers and up to 10 steps: local write runs, remote write runs (1-6 or 10-25), remote-side merges (clock jumps), merges into the observed replica (optionally with every fetch parked and released in a drawn order), close/reopen+Load(-1), snapshot save + fresh instance + LoadFromSnapshot. A sampler reads progress and max under one lock every ~20us, at every verif hook firing of the store, after every write and fetch release; each series must be non-decreasing (restarting at reopen). After every step, at rest (hook/state based): progress == max, largest Lamport clock <= max <= Len, and == Len for a single-writer log. non-trivial = a merge brought other writers' entries into a replica that already held entries; distinct = SHA-1 of the case JSON",
    "level_text": "Generated histories with a sampling monitor; a decrease between two samples is a real decrease (reads are ordered by the sampler lock), a decrease that happens and is undone between samples can be missed.",
    "level_note": "Only honest histories (the property's domain): rejected heads that raise max without ever being fetched are C10's business. Close resets the status by design, so the series restarts at reopen.",
    "design_ref": "5/C19",
    "assumptions": TRUST,
}

CHECKS["C01"] = {
    "tests": [T("TestC01", 120, 2500, ttimeout=3000)],
    "level": "exploration",
    "technique": "property-based testing (rapid): generated multi-writer histories delivered to 2-3 observers by different routes/orders/batchings/duplications with harness-chosen fetch completion order; differential oracle between replicas plus (time,id) order, head and LWW-replay models",
    "rule": "rapid draws a store type, 1-4 authors (replication off, manual merges => chains, forks, merges; up to 16 (quick) / 40 (thorough) steps; writes are puts, deletes and - on document stores - batch puts) and 2-3 observers (replication on, mutually disconnected until the end), each with its own plan of up to 7 deliveries: manual Sync / injected topic message / injected direct-channel payload (each announcing 1-4 arbitrary entries as heads, repeated 0-2 times, awaited or not), restart+Load(-1), snapshot save + fresh instance + LoadFromSnapshot, own local write, LoadMoreFrom with arbitrary entries, restart with a bounded Load(n) after the replica has fetched everything the authors hold (the older part then reaches it only in the final phase, when every entry is announced once the heads have settled); optionally every block fetch of the observer is parked and released in a drawn order. Final phase: observers are reconnected (head exchange on connect) and every replica is announced every replica's heads until all hold the union. Oracle: every replica holds the union, Values() == entries sorted by (time,id), heads == model heads, and the view (listing / map / documents) is identical on all replicas and equal to the LWW replay; non-trivial = the history has a fork AND two observers' plans differ; distinct = SHA-1 of the case JSON",
    "level_text": "Generated histories and delivery plans; no exhaustiveness claimed.",
    "level_note": "The uniqueness assumption on (time, writer) pairs holds by construction (each identity writes through one live, loaded store). A shortfall in delivery is counted as inconclusive here (C02/C05 decide it).",
    "design_ref": "5/C01",
    "assumptions": TRUST,
}

CHECKS["C04"] = {
    "tests": [T("TestC04", 300, 4000)],
    "level": "exploration",
    "technique": "property-based testing (rapid): enumerated single-field mutations of valid entries (and sibling-database entries) x delivery form x route, with an independent badness oracle (recomputed content address, signature verification, log id) and a canary to prove the route processed the input",
    "rule": "rapid draws a store type, 1-2 authors with a short honest history, whether the victim already holds it, a base entry (an honest entry or a fresh valid one nobody holds), one of 23 field mutations (payload, clock time/id, next add/drop, refs, key other/garbage, signature flip/empty, five identity fields, log id replaced / re-spelled with a trailing slash, without the /orbitdb/ prefix, with a ./ segment or in upper case, v, claimed hash, sibling-database entry), the delivery form (A head with the claimed hash kept, B head with the hash recomputed and the block stored on the attacker's node, C stored block reachable through next from a valid head signed by a colluding authorised writer, D reachable through refs of such a head, E reachable through next of a carrier head that passes the announcement pre-check but is refused at join) the route (manual Sync, injected topic message, injected direct-channel payload, LoadMoreFrom with the bare address, the replication queue recorded with a snapshot that is then loaded; on the two address-only routes form A is replaced by B) and whether the replica restarts afterwards (instance closed, a new one on the same disk, Load(-1): it must load, hold everything it held, and still be clean). bad(e) := claimed address != address of the content, or signature does not verify against key and content, or log id != this database - computed with the dependency's encoder and verifier. After an honest canary entry sent by the same route is visible and the replica rests: if bad, neither address is in the log, Values() or heads, no honest address holds foreign content, everything held before is still there, Values() == (time,id) order and the view == LWW replay of the honest entries held. Mutations that leave the entry valid (identity block with the hash recomputed: not covered by the signature) are counted, not asserted (C03's domain). non-trivial = bad and the victim actually fetched blocks for it; distinct = SHA-1 of the case JSON",
    "level_text": "Generated cases with every field/form combination hit in the quick tier (see labels); no exhaustiveness over histories.",
    "level_note": "Links to blocks that nobody holds are not generated: an unfetchable link stalls any replicator until the block appears, honest author or not; the properties assume reachable blocks. Trusted: go-ipfs-log encoder and Verify for the badness oracle.",
    "design_ref": "5/C04",
    "assumptions": TRUST,
}

CHECKS["C10"] = {
    "tests": [T("TestC10", 150, 3000)],
    "level": "exploration",
    "technique": "property-based testing (rapid): generated announcements mixing valid heads with rejected ones at drawn positions, drawn fetch-completion order, then honest re-announcements; wedge oracle (system at rest, valid entry still missing)",
    "rule": "rapid draws a store type, 1-3 authors with an honest history, 1-3 announcements (routes: manual Sync / topic message / direct payload) of 1-4 items each mixing valid heads (any honest entry) with rejected heads of the kinds the code rejects (entry by an identity outside the write list, entry whose signature no longer verifies with the hash recomputed, entry of another database, honest address with foreign content), optionally with every block fetch of the victim parked and released in a drawn order; then the authors' true heads are announced honestly twice and once more after a new write. Oracle: the victim ends up holding every honest entry (reported only if the system is at rest by hook counters and the entry is still missing), no rejected entry is in its log, Values(), heads or view, and order/view match the models. What the mixed announcement itself achieved is not asserted. Announcements travel by manual Sync, topic, direct channel or LoadMoreFrom; in half of the cases the victim finally restarts and reloads (it must load, hold what it held and still be clean). non-trivial = a rejected head preceded a valid one inside one announcement AND a rejected block was actually fetched; distinct = SHA-1 of the case JSON",
    "level_text": "Generated fault sequences with harness-owned fetch completion order; no exhaustiveness claimed.",
    "level_note": "Rejected kinds are the ones the code rejects by design; forged-author entries are C03's subject. Links to blocks nobody holds are not generated.",
    "design_ref": "5/C10",
    "assumptions": TRUST,
}

CHECKS["C03"] = {
    "tests": [T("TestC03", 300, 4000)],
    "level": "exploration",
    "technique": "property-based testing (rapid): generated write lists x hostile author kinds x delivery routes (incl. hidden behind a colluding writer's entry) with a canary proving the route processed the input; invariant: no hostile address in log/Values/heads/view, refused local write changes nothing",
    "rule": "rapid draws a store type, a write list (explicit subset, wildcard, none => creator only, creator explicit), 1-2 authors with a short honest history, whether the victim already holds it, whether the victim first opened a wildcard sibling database with the same options value, the access controller (the default ipfs one, list recorded in the manifest; one case in four the bundled in-memory 'simple' one, list passed by every opener), a hostile kind (honest entry by an identity outside the list; the same written for a database of the non-writer's own; writer's id copied onto the attacker's identity; writer's whole identity block copied with the attacker's key and signature; writer's identity block and key field with the attacker's signature; local write call on the non-writer's own replica), a hostile chain length 1-3, whether the attacker first had a legitimate entry of its own accepted by the victim in that wildcard sibling, whether the victim restarts and reloads afterwards, a route (manual Sync, topic message, direct payload, LoadMoreFrom with the bare address, the replication queue recorded with a snapshot that is then loaded, ancestor referenced through next, or through refs, by a valid entry signed by a colluding authorised writer) and 0-2 honest writes afterwards. An entry counts as the attacker's when it carries/is signed with the attacker's key. After an honest canary sent by the same route is visible and the replica rests: no hostile address is in the victim's log, Values(), heads or view and order/view match the models; with the wildcard list only the unverifiable kind is asserted. Local write: every write call returns an error and log length, heads, view, cached _localHeads, write events, published messages and the other replica are unchanged. The two forged-author kinds are a recorded OPEN finding: when listed in known_findings.txt they are excluded by construction (counted) and two witness replays must still classify as known. non-trivial = the victim fetched blocks for the hostile input (or the refused write hit a non-empty store); distinct = SHA-1 of the case JSON",
    "level_text": "Generated cases; no exhaustiveness claimed.",
    "level_note": "Access controller type ipfs (the default); the simple controller is only reachable through options that bypass the manifest and is not generated. Trusted: the dependency's signature verification.",
    "design_ref": "5/C03",
    "assumptions": TRUST,
}

CHECKS["C11"] = {
    "tests": [T("TestC11Grid", 1, 1, qshards=4, tshards=4), T("TestC11", 120, 2500)],
    "level": "fault_enumeration",
    "technique": "fault enumeration: cancellation of a replication request at every instrumented point, and failure of its n-th block read, (hooks in the replicator) x arrival count, enumerated for two fixed histories and drawn (rapid) for generated histories and request sequences; wedge oracle against the set reachable from the final heads",
    "rule": "a victim replica (replication concurrency 1 or 2, set through a wrapping store constructor) receives 1-4 Sync requests over drawn subsets of honest entries, each with its own context that is cancelled at one of: never, before the call, the n-th arrival (n=1..4) at replicator.slot.before / slot.dequeued / fetch.done / entry.beforeDone / loadend.emit / load.registered, while a parked block fetch is held by the harness, or - nothing being cancelled - with the n-th block read of the request failing with an error (failed-fetch); then an uncancelled Sync of the authors' final heads (optionally after a newer write). TestC11Grid enumerates every (point, n<=3) x concurrency {1,2} x {one head, three heads} for two fixed histories (216 cases); TestC11 draws histories (1-3 authors, up to 10 steps), request sequences and points. Oracle: the victim ends up holding exactly the entries reachable from the final heads, in model order (reported only when the system is at rest by hook counters and an entry is still missing, or when load calls stay open with nothing left to fetch). non-trivial = a cancellation hit a request with work queued or in flight; distinct = SHA-1 of the case JSON",
    "level_text": "Every instrumented cancellation point is enumerated for the fixed histories; generated histories sample the space. Cancellation between uninstrumented instructions is reached only by chance.",
    "level_note": "Trusted: x/sync semaphore, go-ipfs-log fetcher. 'Exactly as if the aborted request had never been made' is judged on the final entry set, order and view.",
    "design_ref": "5/C11",
    "assumptions": TRUST,
}

CHECKS["C12"] = {
    "tests": [T("TestC12Message", 600, 12000), T("TestC12Frame", 300, 6000)],
    "fuzz": [("FuzzC12Message", "120s"), ("FuzzC12Frame", "90s")],
    "level": "exploration",
    "technique": "property-based testing (rapid): grammar- and mutation-generated messages on the topic and the direct channel, generated length-prefixed frames on a libp2p stream; thorough tier adds coverage-guided native Go fuzzing of both; oracle: process survives (crash = driver re-executes the journaled case), later valid message still handled, state only holds honest entries",
    "rule": "TestC12Message: a real head announcement (1-3 real entries) is transformed by 1-3 drawn mutations - delete/set one of 24 JSON paths (address, heads, a head, identity and its fields, clock, hash, key, sig, next, refs, payload, id, v) to one of 23 hostile values (null, {}, [], [null], [{}], ill-typed scalars, huge numbers, deep nesting, partial identities...), duplicate a member, replace everything by one of 22 raw constants, flip a byte, truncate, splice a token - and injected 1-2 times on the victim's topic or direct channel; then the untouched original of the message, sent by the same route, must be handled (the entries it announces become visible), an honest canary on the same route must become visible and the victim must hold only honest entries with honest content, lose nothing it held, and match the order/view models. TestC12Frame: 1-4 frames written on a /go-orbit-db/direct-channel stream between two mocknet hosts, prefix in {exact, zero, short, long, limit+1, 3x limit, 2^63, 2^64-1, ten 0xff bytes, none, 0-12 raw bytes}, body sizes around the varint boundaries and up to 70000, optionally cut short; then a valid Send must be delivered exactly once, intact, attributed to the sender, nothing over the limit is delivered, complete valid frames are delivered intact in order, the sender receives nothing. A panic in a library goroutine kills the test process: the driver re-executes the journaled case and reports it. non-trivial = the message decodes as a MessageExchangeHeads / the frame got past the length prefix; distinct = SHA-1 of the case JSON. Thorough: native fuzzing (FuzzC12Message seeded with the constants and a real message, FuzzC12Frame seeded with boundary prefixes) for a wall-clock budget; a budget hit is not a verdict",
    "level_text": "Generated and fuzzed inputs; absence of crashes is only shown for what was generated.",
    "level_note": "The topic/direct payloads are injected at the transport interface (the bytes a remote peer controls); frames go through real libp2p mocknet streams and the real stream handler.",
    "design_ref": "5/C12",
    "assumptions": TRUST,
}

CHECKS["C14"] = {
    "tests": [T("TestC14", 300, 6000)],
    "fuzz": [("FuzzC14Name", "90s")],
    "level": "exploration",
    "technique": "property-based testing (rapid): name grammar incl. names derived from earlier addresses of the same case x type x write list on three peers; determinism/injectivity table, parse round trip, manifest read-back, create/overwrite/open/local-only outcomes",
    "rule": "rapid draws 2-4 (name, type, write list) tuples per case; names come from a pool of 30 (ASCII, unicode, spaces, nested, empty, '.', '..', 'a/../b', leading/trailing/double slashes, and names built from the first tuple's address root: '<root>', '<root>/x', '/orbitdb/<root>/x', '../<root>/x', 'y/../../<root>/z', ...) or a random string over [a-zA-Z0-9._/ -], or a composition of 1-6 segments from {'..', '.', '', a, x, db, orbitdb, <root>} with zero, one or two leading slashes; write list in {none, *, [p0], [p0,p1], [p1,p2], [p0,p1,p0], [p2,p1,p2,p0,p1]} (ids may be listed twice); the second peer opens every database of the case with one shared options value, as callers do. For every tuple: DetermineAddress twice on one peer and (explicit list) on a second peer must agree (same address, or refused on both); the printed address parses back to the same root, path and text; the root block is a manifest recording exactly this name and type; within the case equal inputs (name, type, effective write list) give equal addresses and different inputs different ones; Create returns a store at that address and of that type, a second Create is refused, with Overwrite accepted; Open on another peer gives the same type and GetAuthorizedByRole(write) == the list given (or the creator's id); a local-only Open is refused on a peer that never saw the database - also when combined with create-if-missing, and through the typed helpers, which always set it - and accepted on the creator; on a third peer the typed helper (Log / KeyValue / Docs) of the recorded type opens the address as that type and a helper of another type is refused; a typed helper given a fresh name creates the database at the address DetermineAddress computes for it. A refusal by DetermineAddress/Create is accepted for any name. non-trivial = an accepted name containing a '.'/'..' segment or embedding an earlier root; distinct = SHA-1 of the case JSON. Thorough: native fuzzing of the name string (FuzzC14Name, seeded with the pool) for a wall-clock budget",
    "level_text": "Generated names/configurations; injectivity is checked within each case, not globally.",
    "level_note": "Persistence is the harness's recorded datastore behind cache.Interface (same keys as cacheleveldown). Access controller type ipfs.",
    "design_ref": "5/C14",
    "assumptions": TRUST,
}

CHECKS["C09"] = {
    "tests": [T("TestC09", 100, 2000)],
    "level": "exploration",
    "technique": "property-based testing (rapid): generated sets of 2-4 databases on one instance (shared default bus) with interleaved writes, loads and replications; frame-condition oracle (everything about the untouched databases is unchanged) plus transport-log and event-bus invariants",
    "rule": "rapid draws 2-4 databases (type, write list) opened on one instance with the default shared event bus (all through one shared options value, as callers commonly do), on a second replicating instance (so every topic has a peer) and on an author instance, and 2-9 actions write(db, n) / load(db) / replicate(db, n: entries authored elsewhere and synced in) / racewrite(db: the write's announcement is held in a slow topic peer lookup while another database is written, then released) / exchange2(db, db': a returning peer's head-exchange messages for two databases are delivered on the direct channel back to back, the second while the first database is still fetching; both databases must end up holding what was handed over). Around every action, at rest: (b) every other database of the instance has the same entries, view, replication progress/max and cached _localHeads/_remoteHeads bytes as before; (a) every message recorded by the simulated transport names the topic's own database, the instance only sends messages for the touched database, and every head carried has that database's log id; (c) every store event seen on the instance's bus (write, replicate, replicate-progress, replicated, load, load-progress, ready) has the touched database's address and carries only its entries. non-trivial = an untouched database was non-empty and had a topic peer; distinct = SHA-1 of the case JSON",
    "level_text": "Generated configurations and histories; no exhaustiveness claimed.",
    "level_note": "Quiescence is decided per store from hook counters; the second instance's echo traffic for the touched database is allowed.",
    "design_ref": "5/C09",
    "assumptions": TRUST,
}

CHECKS["C02"] = {
    "tests": [T("TestC02", 250, 2500)],
    "level": "exploration",
    "technique": "property-based testing (rapid): generated fault sequences (link cuts/heals, dropped/duplicated/reordered head announcements, restarts) interleaved with writes on 2-4 replicas, followed by the reconnect phase of the statement; wedge oracle (system at rest by hook counters, a write still missing)",
    "rule": "rapid draws a store type, 2-4 writer replicas of one database (replication on; every topic message and direct-channel payload is held by the harness) and 2-20 (quick) / 2-30 (thorough) actions: write(i), cut(i,j), heal(i,j), deliver / drop / duplicate held message k (any k => reordering), lose one of the most recent head exchanges (one case in four ends with a write behind a partition whose head exchanges at the next heal are all lost, then another cut); the harness waits for a standstill between steps so that the set of held messages a step picks from is a function of the history; restart(i) (instance closed, recreated on the same disk, store reopened and Load(-1)ed), gate(i) (every block fetch of replica i parks from now on) and release(i,k) (one parked fetch proceeds), so that cuts and restarts can hit a replication in mid-fetch. Final phase: delivery becomes automatic, every pair is reconnected (an up link is cut and healed so that both sides see the other join the topic), every held message is delivered, every gate is opened, no further fault. Oracle: every replica ends up holding exactly the acknowledged writes (reported only when the system is at rest and a write is still missing), Values() == (time,id) order, and all views are equal. non-trivial = before the final phase some announcement was dropped, or a write happened with a link down, or a replica restarted after a write; distinct = SHA-1 of the case JSON",
    "level_text": "Bounded safety form of a liveness property: 'not wedged after the final phase'. Generated fault sequences; no exhaustiveness claimed.",
    "level_note": "A replica that would only converge after unbounded time reads as inconclusive, never as a violation. Blocks held by a connected peer are fetchable (simulated block exchange); the simulated pubsub emits joins on heal as real pubsub polling does.",
    "design_ref": "5/C02",
    "assumptions": TRUST,
}

CHECKS["C05"] = {
    "tests": [T("TestC05", 80, 1200), T("TestC05Dir", 80, 1200)],
    "level": "fault_enumeration",
    "technique": "crash-point enumeration: every prefix of the journaled persistence effects (block writes incl. fetched blocks, cache puts/deletes) of generated histories (rapid) is materialised as a fresh offline peer and recovered; oracle = acknowledged subset, written superset, ancestry closure, model replay, identity, writability",
    "rule": "rapid draws a store type, 0-2 other writers and up to 8 (quick) / 12 (thorough) steps on the replica under test: runs of local writes, remote writes, merges (manual Sync of another writer's heads; one case in six ends with two remote writers' concurrent branches merged in separate rounds and nothing local afterwards), clean restarts (instance closed, recreated on the same recorded disk, Load(-1): everything acknowledged so far must be there, identity unchanged). Every persistence effect of the replica is journaled in issue order with acknowledgement marks (write call returned; replicated event emitted - the store under test is given a harness-owned event bus whose Emit places the mark synchronously, so the mark sits exactly between the effects issued before and after the emission). Then every prefix of the journal after database creation (all of them up to 40 effects, otherwise first, last, the last 12 and 12 drawn ones) is materialised: a fresh offline kubo node holding exactly those blocks and a disk holding exactly those datastore writes; a new instance with the same peer key opens the database and Load(-1)s it. Oracle per crash point: identity unchanged; recovered entries include everything acknowledged before the cut, are all entries that were really written, are closed under next; Values() == (time,id) order; view == LWW replay of the recovered entries; a new write succeeds. non-trivial = a cut falls between an entry's block write and the head put, or the history contains a replicated batch; TestC05Dir (the statement's clean cycles on real directories): the instance under test lives on a real directory with the library's own leveldb cache and on-disk keystore and holds one or two databases of the same name (differing by type / write list); rapid draws 2-9 steps of local write runs, runs authored elsewhere and replicated in by Sync, close+reopen of one database while the instance stays up, and full restarts (instance closed, a new one on the same directory, every database reopened and Load(-1)ed; the last step is always a restart). After every reopen: the instance identity is the same, every database lists exactly the entries acknowledged to it (none missing, none of its sibling's), shows the same state as before the close, accepts a new write and signs it with the same identity; non-trivial (Dir) = at least two restarts and a replicated batch; distinct = SHA-1 of the case JSON",
    "level_text": "All crash points of each generated history are enumerated when the journal has at most 40 effects (the usual case); longer journals are sampled. Histories themselves are sampled.",
    "level_note": "Assumption from the statement: an effect is durable once its call returns, effects become durable in issue order. Disk = recorded datastore behind cache.Interface and the keystore datastore; real leveldb close/reopen cycles are exercised by C18.",
    "design_ref": "5/C05",
    "assumptions": TRUST,
}

CHECKS["C18"] = {
    "tests": [T("TestC18", 60, 1500)],
    "level": "exploration",
    "technique": "property-based testing (rapid): generated instance configurations and close/drop moments (idle, mid-write, with a replication's fetches parked by the harness) on real leveldb directories; watchdogged post-close calls, goroutine attribution from runtime stacks, reopen-and-compare",
    "rule": "rapid draws 1-3 databases (type, 0-4 acknowledged local writes, 0-3 entries authored elsewhere, replication state none / merged / replication in flight with every fetch parked / store reopened and its Load in flight, parked in its first fetch), a closing action on a target database or on the instance (Close once, twice, twice concurrently; Drop; instance Close once, twice, concurrently), whether the parked fetches are released before or after the close call, whether the databases are opened through one shared options value, whether a goroutine keeps writing to the target during the close, and whether, after the close, the author writes two more entries whose heads are then handed to the closed store (Sync after close) with every fetch of the peer parked. The instance under test lives on a real leveldb directory (library defaults) with the simulated transports. Oracle: the closing call and every public operation afterwards on the closed object (write, view, Load, Sync, LoadFromSnapshot, SaveSnapshot, ReplicationStatus, Close; Open/Create/DetermineAddress on a closed instance) returns without panic within a 20 s watchdog; sibling databases of a closed or dropped store stay writable and keep their entries; after the instance is closed no goroutine whose creator frame is in berty.tech/go-orbit-db (and that did not exist before the instance was created) is left after a polling window; a new instance on the same directory reopens every database, Load(-1) shows every acknowledged write (incl. those acknowledged to the concurrent writer), a dropped database is empty and the siblings' directories still exist. a Load that was in flight returns within the watchdog; non-trivial = closed with a replication or a Load parked, or the instance held >= 2 databases; distinct = SHA-1 of the case JSON",
    "level_text": "Generated close moments; the only harness-owned in-flight state is the parked block fetch. Leaks are judged after a bounded wait: a goroutine still alive at its end is reported with its stack.",
    "level_note": "The watchdog (20 s) and the leak window (8 s) only bound waits; under the driver a failure must reproduce when the case is re-executed. The bundled pubsub adapters are exercised by C20, not here.",
    "design_ref": "5/C18",
    "assumptions": TRUST,
}

CHECKS["C20"] = {
    "tests": [T("TestC20CoreAPI", 300, 6000), T("TestC20Direct", 60, 1500), T("TestC20OneOnOne", 4, 40, qshards=4, tshards=8, qtimeout=900), T("TestC20Raw", 40, 800)],
    "level": "exploration",
    "technique": "property-based testing (rapid) of the bundled adapters over scripted lower layers: generated membership snapshot sequences and message streams for pubsubcoreapi, generated send interleavings over a shared scripted pubsub for the pairwise channel, generated payload sizes on the varint/limit boundaries over libp2p mocknet streams for the direct channel; sequence oracles (exact diff, once/intact/attributed)",
    "rule": "TestC20CoreAPI: pubsubcoreapi over a scripted coreiface.PubSubAPI whose Peers() returns 1-8 drawn snapshots (subsets of 6 peers, 1 ms poll) and whose subscription delivers 0-12 drawn messages from self or others (0-70000 bytes): WatchPeers must report, snapshot by snapshot, exactly one join per appearance and one leave per disappearance and nothing once membership is stable; WatchMessages must deliver every remote message once, in order, byte for byte and no own message; non-trivial = a peer left and rejoined. TestC20OneOnOne: two oneonone channels over one scripted pubsub+swarm with drawn peer ids; both Connect concurrently - in three cases out of four each end issues 2 or 3 overlapping Connect calls for the same peer (several stores of one instance meeting it), which the scripted pubsub lets overlap inside Subscribe - must subscribe to the same channel name, then 1-10 sends (0..65536 bytes) in a drawn interleaving are each emitted exactly once at the other end, intact, attributed to the sender, never at the sender; non-trivial = both ends sent. TestC20Direct: directchannel between two mocknet hosts, 1-6 sends in both directions with sizes from {0,1,127,128,16383,16384,65535,4MiB-1,4MiB,4MiB+1}: payloads up to the limit arrive once, intact, attributed to the stream's remote peer; larger ones are not delivered; one send in five is a sender dying mid-frame (the header announces the size, the last 1..size bytes are never written and the stream is closed cleanly): nothing of it may be delivered; a following small payload still arrives in both directions. (Raw hostile frames on the same stream protocol are generated by C12's TestC12Frame.) TestC20Raw: pubsubraw over real go-libp2p-pubsub (floodsub router) on 2-3 mocknet hosts: once every node sees the others on the topic, 1-8 publishes (0..200000 bytes) from drawn nodes; every other node receives each payload exactly once and intact, no node receives its own, and every node saw exactly one join per other peer; non-trivial = two different publishers. distinct = SHA-1 of the case JSON",
    "level_text": "Generated scripts for the lower layer; the adapters run unmodified.",
    "level_note": "pubsubraw is driven over the floodsub router (immediate forwarding) rather than gossipsub, whose delivery timing is owned by heartbeats; leave events of pubsubraw are not exercised. oneonone.Connect waits at least one second by construction, so its cases are few.",
    "design_ref": "5/C20",
    "assumptions": TRUST,
}
