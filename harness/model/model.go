// Package model holds the reference models the oracles compare go-orbit-db
// against. They are written from the property statements and do not call
// into go-orbit-db.
package model

import (
	"bytes"
	"sort"
	"strings"
)

// Ent is the part of a log entry the models need.
type Ent struct {
	Hash string
	Time int
	ID   []byte // clock id (writer key bytes)
	Next []string
	Refs []string
}

// Less is the Lamport total order: time, then clock id bytes.
func Less(a, b Ent) bool {
	if a.Time != b.Time {
		return a.Time < b.Time
	}
	return bytes.Compare(a.ID, b.ID) < 0
}

// Order returns the entries oldest first in the Lamport total order. The
// caller guarantees (time,id) pairs are unique.
func Order(es []Ent) []Ent {
	out := append([]Ent{}, es...)
	sort.SliceStable(out, func(i, j int) bool { return Less(out[i], out[j]) })
	return out
}

// UniquePairs reports whether no two entries share (time,id).
func UniquePairs(es []Ent) bool {
	seen := map[string]bool{}
	for _, e := range es {
		k := string(e.ID) + "/" + itoa(e.Time)
		if seen[k] {
			return false
		}
		seen[k] = true
	}
	return true
}

func itoa(i int) string {
	if i == 0 {
		return "0"
	}
	neg := i < 0
	if neg {
		i = -i
	}
	var b []byte
	for i > 0 {
		b = append([]byte{byte('0' + i%10)}, b...)
		i /= 10
	}
	if neg {
		b = append([]byte{'-'}, b...)
	}
	return string(b)
}

// Heads returns the hashes not referenced by any next of the set, sorted.
func Heads(es []Ent) []string {
	ref := map[string]bool{}
	for _, e := range es {
		for _, n := range e.Next {
			ref[n] = true
		}
	}
	var out []string
	for _, e := range es {
		if !ref[e.Hash] {
			out = append(out, e.Hash)
		}
	}
	sort.Strings(out)
	return out
}

// ClosedUnderNext reports whether every next link of the set is in the set.
func ClosedUnderNext(es []Ent) (bool, string) {
	have := map[string]bool{}
	for _, e := range es {
		have[e.Hash] = true
	}
	for _, e := range es {
		for _, n := range e.Next {
			if !have[n] {
				return false, e.Hash + " -> " + n
			}
		}
	}
	return true, ""
}

// ---------------------------------------------------------------------------
// key-value / document replay

// Op is one store operation as issued by the harness.
type Op struct {
	Kind string // PUT, DEL, PUTALL, ADD
	Key  string
	Val  []byte
	Docs []Doc // PUTALL members, in the order given to the call
}

// Doc is one member of a batch put.
type Doc struct {
	Key string
	Val []byte
}

// Replay folds ops (already in log order, oldest first) last-writer-wins.
func Replay(ops []Op) map[string][]byte {
	m := map[string][]byte{}
	for _, o := range ops {
		switch o.Kind {
		case "PUT":
			m[o.Key] = o.Val
		case "DEL":
			delete(m, o.Key)
		case "PUTALL":
			for _, d := range o.Docs {
				m[d.Key] = d.Val
			}
		}
	}
	return m
}

// ---------------------------------------------------------------------------
// document Get matching

// DocMatch says whether index key k matches search key q under the options.
func DocMatch(k, q string, caseInsensitive, partial bool) bool {
	if caseInsensitive {
		k = strings.ToLower(k)
		q = strings.ToLower(q)
	}
	if partial {
		return strings.Contains(k, q)
	}
	return k == q
}

// ---------------------------------------------------------------------------
// event log windows

// Window computes the expected List result (as indices into the listing of n
// entries, oldest first). bound is "", "gt", "gte", "lt", "lte"; pos is the
// index of the bound entry; amountSet/amount describe the Amount option.
func Window(n int, bound string, pos int, amountSet bool, amount int) []int {
	amt := 1
	if amountSet {
		switch {
		case amount == 0:
			amt = 1
		case amount > 0:
			amt = amount
		default:
			amt = n
		}
	}
	if amt > n {
		amt = n // (also keeps the arithmetic below away from overflow for "no limit" amounts such as MaxInt)
	}
	lo, hi := 0, 0
	switch bound {
	case "":
		lo, hi = n-amt, n
	case "gt":
		lo, hi = pos+1, pos+1+amt
	case "gte":
		lo, hi = pos, pos+amt
	case "lt":
		lo, hi = pos-amt, pos
	case "lte":
		lo, hi = pos+1-amt, pos+1
	}
	if lo < 0 {
		lo = 0
	}
	if hi > n {
		hi = n
	}
	var out []int
	for i := lo; i < hi; i++ {
		out = append(out, i)
	}
	return out
}
