package world

import (
	"context"
	"crypto/sha256"
	"encoding/base64"
	"encoding/hex"
	"fmt"
	"sync"
	"sync/atomic"

	"berty.tech/go-ipfs-log/keystore"
	orbitdb "berty.tech/go-orbit-db"
	"berty.tech/go-orbit-db/iface"
	cid "github.com/ipfs/go-cid"
	ds "github.com/ipfs/go-datastore"
	dsync "github.com/ipfs/go-datastore/sync"
	ipld "github.com/ipfs/go-ipld-format"
	cfg "github.com/ipfs/kubo/config"
	ipfsCore "github.com/ipfs/kubo/core"
	"github.com/ipfs/kubo/core/coreapi"
	coreiface "github.com/ipfs/kubo/core/coreiface"
	"github.com/ipfs/kubo/repo"
	"github.com/libp2p/go-libp2p/core/crypto"
	"github.com/libp2p/go-libp2p/core/peer"
)

// MaxPeers is the number of deterministic identities available.
const MaxPeers = 8

type keyMaterial struct {
	peerPriv    crypto.PrivKey
	peerID      peer.ID
	peerPrivB64 string
	rawA        []byte // keystore key stored under the peer id (its public key is the identity id)
	rawB        []byte // keystore key stored under the identity id (signs entries)
	identityID  string
}

var (
	keyOnce sync.Once
	keys    [MaxPeers]keyMaterial
)

type detReader struct {
	seed []byte
	ctr  uint64
	buf  []byte
}

func (r *detReader) Read(p []byte) (int, error) {
	n := 0
	for n < len(p) {
		if len(r.buf) == 0 {
			h := sha256.Sum256(append(append([]byte{}, r.seed...), byte(r.ctr), byte(r.ctr>>8), byte(r.ctr>>16)))
			r.ctr++
			r.buf = h[:]
		}
		c := copy(p[n:], r.buf)
		r.buf = r.buf[c:]
		n += c
	}
	return n, nil
}

func secpRaw(seed string) []byte {
	for i := 0; ; i++ {
		h := sha256.Sum256([]byte(fmt.Sprintf("%s/%d", seed, i)))
		if _, err := crypto.UnmarshalSecp256k1PrivateKey(h[:]); err == nil {
			return h[:]
		}
	}
}

func initKeys() {
	for i := 0; i < MaxPeers; i++ {
		priv, pub, err := crypto.GenerateEd25519Key(&detReader{seed: []byte(fmt.Sprintf("verif-peer-%d", i))})
		if err != nil {
			panic(err)
		}
		pid, err := peer.IDFromPublicKey(pub)
		if err != nil {
			panic(err)
		}
		pb, err := crypto.MarshalPrivateKey(priv)
		if err != nil {
			panic(err)
		}
		rawA := secpRaw(fmt.Sprintf("verif-a-%d", i))
		rawB := secpRaw(fmt.Sprintf("verif-b-%d", i))
		ka, _ := crypto.UnmarshalSecp256k1PrivateKey(rawA)
		pa, _ := ka.GetPublic().Raw()
		keys[i] = keyMaterial{
			peerPriv:    priv,
			peerID:      pid,
			peerPrivB64: base64.StdEncoding.EncodeToString(pb),
			rawA:        rawA,
			rawB:        rawB,
			identityID:  hex.EncodeToString(pa),
		}
	}
}

// IdentityID returns the orbitdb identity id that key slot i produces.
func IdentityID(i int) string {
	keyOnce.Do(initKeys)
	return keys[i].identityID
}

// World is one simulated network.
type World struct {
	inflightGets int64 // block fetches (Dag().Get) currently inside the harness-owned fetch layer, parked ones included
	mu           sync.Mutex
	cond         *sync.Cond
	Peers        []*Peer
	down         map[[2]int]bool

	topics map[string][]*subscription

	// message handling
	AutoDeliver bool
	held        []*Message
	msgSeq      int
	Log         []*Message // every publish / direct send ever made (guarded by mu)

	peerHolds  map[string]chan struct{}
	peerHard   map[string]bool
	peerParked map[string]*int64

	pending int64 // items queued to a subscriber/emitter pump and not yet handed over

	closed bool
}

// Message is one in-flight transport unit.
type Message struct {
	Seq   int
	Kind  string // "topic" or "direct"
	From  int
	To    int
	Topic string
	Data  []byte
}

// New creates a world with n peers using key slots slots (len n) or 0..n-1.
func New(n int, slots []int) (*World, error) {
	keyOnce.Do(initKeys)
	w := &World{down: map[[2]int]bool{}, topics: map[string][]*subscription{}, AutoDeliver: true}
	w.cond = sync.NewCond(&w.mu)
	for i := 0; i < n; i++ {
		slot := i
		if slots != nil {
			slot = slots[i]
		}
		p, err := w.newPeer(i, slot)
		if err != nil {
			w.Close()
			return nil, err
		}
		w.Peers = append(w.Peers, p)
	}
	return w, nil
}

// Close tears the world down.
func (w *World) Close() {
	w.mu.Lock()
	w.closed = true
	w.cond.Broadcast()
	peers := w.Peers
	w.mu.Unlock()
	for _, p := range peers {
		p.Shutdown()
	}
}

// Peer is one simulated machine: an IPFS node, a persistent "disk" and at
// most one live OrbitDB instance.
type Peer struct {
	W    *World
	Idx  int
	Slot int
	ID   peer.ID

	node   *ipfsCore.IpfsNode
	rawAPI coreiface.CoreAPI
	API    coreiface.CoreAPI
	cancel context.CancelFunc

	Disk *Disk

	mu       sync.Mutex
	DB       orbitdb.OrbitDB
	direct   *simDirect
	Offline  bool // Dag().Get never waits for remote blocks
	gate     bool
	gateFor  func(cid.Cid) bool
	gateHard bool
	parked   []*ParkedFetch
	GetLog   []cid.Cid
	Journal  *Journal
}

func newNode(ctx context.Context, slot int) (*ipfsCore.IpfsNode, error) {
	c := cfg.Config{}
	c.Bootstrap = []string{}
	c.Identity.PeerID = keys[slot].peerID.String()
	c.Identity.PrivKey = keys[slot].peerPrivB64
	c.Swarm.ResourceMgr.Enabled = cfg.False
	return ipfsCore.NewNode(ctx, &ipfsCore.BuildCfg{
		Online: false,
		Repo:   &repo.Mock{D: dsync.MutexWrap(ds.NewMapDatastore()), C: c},
	})
}

func (w *World) newPeer(idx, slot int) (*Peer, error) {
	ctx, cancel := context.WithCancel(context.Background())
	node, err := newNode(ctx, slot)
	if err != nil {
		cancel()
		return nil, err
	}
	api, err := coreapi.NewCoreAPI(node)
	if err != nil {
		cancel()
		return nil, err
	}
	p := &Peer{W: w, Idx: idx, Slot: slot, ID: keys[slot].peerID, node: node, rawAPI: api, cancel: cancel}
	p.Journal = &Journal{}
	p.Disk = NewDisk(p.Journal)
	p.Disk.PreloadKeys(slot)
	p.API = &wrappedAPI{CoreAPI: api, p: p}
	return p, nil
}

// NewDetachedPeer builds a peer that belongs to no world's link matrix: used to
// materialise crash images. Blocks and disk are supplied by the caller.
func NewDetachedPeer(slot int) (*Peer, error) {
	keyOnce.Do(initKeys)
	w := &World{down: map[[2]int]bool{}, topics: map[string][]*subscription{}, AutoDeliver: true}
	w.cond = sync.NewCond(&w.mu)
	p, err := w.newPeer(0, slot)
	if err != nil {
		return nil, err
	}
	p.Offline = true
	w.Peers = []*Peer{p}
	return p, nil
}

// Shutdown closes the instance (if any) and the node.
func (p *Peer) Shutdown() {
	p.StopInstance()
	p.cancel()
	_ = p.node.Close()
}

// Node gives access to the raw kubo node (block store).
func (p *Peer) Node() *ipfsCore.IpfsNode { return p.node }

// StartInstance creates an OrbitDB instance on the peer's disk.
func (p *Peer) StartInstance(ctx context.Context) (orbitdb.OrbitDB, error) {
	p.mu.Lock()
	if p.DB != nil {
		p.mu.Unlock()
		return nil, fmt.Errorf("instance already running")
	}
	p.mu.Unlock()

	ks, err := keystore.NewKeystore(p.Disk.KeystoreDS())
	if err != nil {
		return nil, err
	}
	dir := "/verif-disk"
	db, err := orbitdb.NewOrbitDB(ctx, p.API, &orbitdb.NewOrbitDBOptions{
		Directory:            &dir,
		Keystore:             ks,
		Cache:                p.Disk.Cache(),
		PubSub:               &simPubSub{w: p.W, p: p},
		DirectChannelFactory: p.directFactory(),
	})
	if err != nil {
		return nil, err
	}
	p.mu.Lock()
	p.DB = db
	p.mu.Unlock()
	return db, nil
}

// StartInstanceOnDir creates an OrbitDB instance whose keystore and caches are
// real leveldb databases under dir (the library's defaults).
func (p *Peer) StartInstanceOnDir(ctx context.Context, dir string) (orbitdb.OrbitDB, error) {
	p.mu.Lock()
	if p.DB != nil {
		p.mu.Unlock()
		return nil, fmt.Errorf("instance already running")
	}
	p.mu.Unlock()
	db, err := orbitdb.NewOrbitDB(ctx, p.API, &orbitdb.NewOrbitDBOptions{
		Directory:            &dir,
		PubSub:               &simPubSub{w: p.W, p: p},
		DirectChannelFactory: p.directFactory(),
	})
	if err != nil {
		return nil, err
	}
	p.mu.Lock()
	p.DB = db
	p.mu.Unlock()
	return db, nil
}

// Detach forgets the running instance without closing it (the caller closes it).
func (p *Peer) Detach() orbitdb.OrbitDB {
	p.mu.Lock()
	db := p.DB
	p.DB = nil
	p.mu.Unlock()
	return db
}

// StopInstance closes the running instance, if any.
func (p *Peer) StopInstance() {
	p.mu.Lock()
	db := p.DB
	p.DB = nil
	p.mu.Unlock()
	if db != nil {
		_ = db.Close()
	}
}

// ---------------------------------------------------------------------------
// links

func key2(i, j int) [2]int {
	if i > j {
		i, j = j, i
	}
	return [2]int{i, j}
}

// Linked reports whether i and j can talk.
func (w *World) Linked(i, j int) bool {
	w.mu.Lock()
	defer w.mu.Unlock()
	return w.linkedLocked(i, j)
}

func (w *World) linkedLocked(i, j int) bool {
	return i != j && !w.down[key2(i, j)]
}

// Cut takes the link down: both sides see the other leave shared topics.
func (w *World) Cut(i, j int) {
	w.mu.Lock()
	if i == j || w.down[key2(i, j)] {
		w.mu.Unlock()
		return
	}
	w.down[key2(i, j)] = true
	w.notifyMembershipLocked(i, j, false)
	w.cond.Broadcast()
	w.mu.Unlock()
}

// Heal brings the link up: both sides see the other join shared topics.
func (w *World) Heal(i, j int) {
	w.mu.Lock()
	if i == j || !w.down[key2(i, j)] {
		w.mu.Unlock()
		return
	}
	delete(w.down, key2(i, j))
	w.notifyMembershipLocked(i, j, true)
	w.cond.Broadcast()
	w.mu.Unlock()
}

func (w *World) notifyMembershipLocked(i, j int, join bool) {
	for topic, subs := range w.topics {
		var si, sj []*subscription
		for _, s := range subs {
			if s.p.Idx == i {
				si = append(si, s)
			}
			if s.p.Idx == j {
				sj = append(sj, s)
			}
		}
		if len(si) == 0 || len(sj) == 0 {
			continue
		}
		for _, s := range si {
			s.pushPeerEvent(topic, w.Peers[j].ID, join)
		}
		for _, s := range sj {
			s.pushPeerEvent(topic, w.Peers[i].ID, join)
		}
	}
}

// ---------------------------------------------------------------------------
// message control

func (w *World) emit(m *Message) {
	w.mu.Lock()
	m.Seq = w.msgSeq
	w.msgSeq++
	w.Log = append(w.Log, m)
	if !w.AutoDeliver {
		w.held = append(w.held, m)
		w.mu.Unlock()
		return
	}
	w.mu.Unlock()
	w.deliver(m)
}

// Held returns the number of messages held for the harness to decide on.
func (w *World) Held() int {
	w.mu.Lock()
	defer w.mu.Unlock()
	return len(w.held)
}

// HeldMessages returns a copy of the held list.
func (w *World) HeldMessages() []*Message {
	w.mu.Lock()
	defer w.mu.Unlock()
	return append([]*Message{}, w.held...)
}

// TakeHeld removes and returns held message k (k taken modulo the count).
func (w *World) TakeHeld(k int) *Message {
	w.mu.Lock()
	defer w.mu.Unlock()
	if len(w.held) == 0 {
		return nil
	}
	k %= len(w.held)
	m := w.held[k]
	w.held = append(w.held[:k:k], w.held[k+1:]...)
	return m
}

// TakeHeldKind removes and returns the k-th held message of the given kind ("topic"/"direct"), counted
// from the most recent one.
func (w *World) TakeHeldKind(kind string, k int) *Message {
	w.mu.Lock()
	defer w.mu.Unlock()
	var idx []int
	for i := len(w.held) - 1; i >= 0; i-- {
		if w.held[i].Kind == kind {
			idx = append(idx, i)
		}
	}
	if len(idx) == 0 {
		return nil
	}
	i := idx[k%len(idx)]
	m := w.held[i]
	w.held = append(w.held[:i:i], w.held[i+1:]...)
	return m
}

// Deliver hands m to its destination now (if the destination still listens
// and the link is up; otherwise it is lost, as on a real network).
func (w *World) Deliver(m *Message) bool { return w.deliver(m) }

func (w *World) deliver(m *Message) bool {
	w.mu.Lock()
	if !w.linkedLocked(m.From, m.To) {
		w.mu.Unlock()
		return false
	}
	switch m.Kind {
	case "topic":
		ok := false
		for _, s := range w.topics[m.Topic] {
			if s.p.Idx == m.To {
				s.pushMessage(m.Data)
				ok = true
			}
		}
		w.mu.Unlock()
		return ok
	case "direct":
		dst := w.Peers[m.To]
		w.mu.Unlock()
		dst.mu.Lock()
		d := dst.direct
		dst.mu.Unlock()
		if d == nil {
			return false
		}
		d.push(&iface.EventPubSubPayload{Payload: m.Data, Peer: w.Peers[m.From].ID})
		return true
	}
	w.mu.Unlock()
	return false
}

// DeliverAllHeld delivers every held message in order.
func (w *World) DeliverAllHeld() int {
	n := 0
	for {
		m := w.TakeHeld(0)
		if m == nil {
			return n
		}
		w.deliver(m)
		n++
	}
}

// InflightFetches is the number of block fetches currently inside the harness-owned fetch layer: waiting for a
// block to become reachable, parked by a gate, or being served.
func (w *World) InflightFetches() int64 { return atomic.LoadInt64(&w.inflightGets) }

// Pending is the number of events queued for a receiver but not yet taken.
func (w *World) Pending() int64 { return atomic.LoadInt64(&w.pending) }

// LogLen returns the number of messages ever emitted.
func (w *World) LogLen() int {
	w.mu.Lock()
	defer w.mu.Unlock()
	return len(w.Log)
}

// LogSince returns messages with index >= from.
func (w *World) LogSince(from int) []*Message {
	w.mu.Lock()
	defer w.mu.Unlock()
	if from > len(w.Log) {
		from = len(w.Log)
	}
	return append([]*Message{}, w.Log[from:]...)
}

// ---------------------------------------------------------------------------
// block exchange

type wrappedAPI struct {
	coreiface.CoreAPI
	p *Peer
}

func (a *wrappedAPI) Dag() coreiface.APIDagService {
	return &netDAG{APIDagService: a.CoreAPI.Dag(), p: a.p}
}

type netDAG struct {
	coreiface.APIDagService
	p *Peer
}

// ParkedFetch is a Dag().Get the harness is holding.
type ParkedFetch struct {
	Cid     cid.Cid
	release chan struct{}
	once    sync.Once
	fail    error
}

// Release lets the fetch proceed.
func (f *ParkedFetch) Release() { f.once.Do(func() { close(f.release) }) }

// Fail makes the fetch return err (a read that fails: I/O error, provider gone) instead of proceeding.
func (f *ParkedFetch) Fail(err error) {
	f.once.Do(func() {
		f.fail = err
		close(f.release)
	})
}

// SetGateHard is SetGate(true) with reads that stay parked even when their context ends (until released).
func (p *Peer) SetGateHard() {
	p.mu.Lock()
	p.gate = true
	p.gateHard = true
	p.mu.Unlock()
}

// SetGateFor is SetGate(true) for the blocks sel selects only: the others are fetched as usual.
func (p *Peer) SetGateFor(sel func(cid.Cid) bool) {
	p.mu.Lock()
	p.gate = true
	p.gateFor = sel
	p.mu.Unlock()
}

// SetGate makes every later Dag().Get of this peer park until released.
func (p *Peer) SetGate(on bool) {
	p.mu.Lock()
	p.gate = on
	p.gateFor = nil
	p.gateHard = false
	var rel []*ParkedFetch
	if !on {
		rel = p.parked
		p.parked = nil
	}
	p.mu.Unlock()
	for _, f := range rel {
		f.Release()
	}
}

// Parked returns the fetches currently parked.
func (p *Peer) Parked() []*ParkedFetch {
	p.mu.Lock()
	defer p.mu.Unlock()
	return append([]*ParkedFetch{}, p.parked...)
}

// FailParked makes parked fetch k (modulo count) fail with err; false if none.
func (p *Peer) FailParked(k int, err error) bool {
	p.mu.Lock()
	if len(p.parked) == 0 {
		p.mu.Unlock()
		return false
	}
	k %= len(p.parked)
	f := p.parked[k]
	p.parked = append(p.parked[:k:k], p.parked[k+1:]...)
	p.mu.Unlock()
	f.Fail(err)
	return true
}

// ReleaseParked releases parked fetch k (modulo count); false if none.
func (p *Peer) ReleaseParked(k int) bool {
	p.mu.Lock()
	if len(p.parked) == 0 {
		p.mu.Unlock()
		return false
	}
	k %= len(p.parked)
	f := p.parked[k]
	p.parked = append(p.parked[:k:k], p.parked[k+1:]...)
	p.mu.Unlock()
	f.Release()
	return true
}

func (p *Peer) hasLocal(c cid.Cid) bool {
	ok, err := p.node.Blockstore.Has(context.Background(), c)
	return err == nil && ok
}

// HasBlock reports whether the peer's node holds the block.
func (p *Peer) HasBlock(c cid.Cid) bool { return p.hasLocal(c) }

// Fetched reports whether the peer ever asked its DAG for c.
func (p *Peer) Fetched(c cid.Cid) bool {
	p.mu.Lock()
	defer p.mu.Unlock()
	for _, x := range p.GetLog {
		if x.Equals(c) {
			return true
		}
	}
	return false
}

func (d *netDAG) Add(ctx context.Context, n ipld.Node) error {
	if err := d.APIDagService.Add(ctx, n); err != nil {
		return err
	}
	d.p.Journal.add(Effect{Kind: "block", Cid: n.Cid().String(), Value: n.RawData()})
	d.p.W.mu.Lock()
	d.p.W.cond.Broadcast()
	d.p.W.mu.Unlock()
	return nil
}

func (d *netDAG) AddMany(ctx context.Context, ns []ipld.Node) error {
	for _, n := range ns {
		if err := d.Add(ctx, n); err != nil {
			return err
		}
	}
	return nil
}

func (d *netDAG) Get(ctx context.Context, c cid.Cid) (ipld.Node, error) {
	p := d.p
	atomic.AddInt64(&p.W.inflightGets, 1)
	defer atomic.AddInt64(&p.W.inflightGets, -1)
	p.mu.Lock()
	p.GetLog = append(p.GetLog, c)
	var pf *ParkedFetch
	hard := p.gateHard
	if p.gate && (p.gateFor == nil || p.gateFor(c)) {
		pf = &ParkedFetch{Cid: c, release: make(chan struct{})}
		p.parked = append(p.parked, pf)
	}
	p.mu.Unlock()
	if pf != nil && hard {
		// a read that does not notice the end of its context until it completes (a slow local disk)
		<-pf.release
		if pf.fail != nil {
			return nil, pf.fail
		}
	} else if pf != nil {
		select {
		case <-pf.release:
			if pf.fail != nil {
				return nil, pf.fail
			}
		case <-ctx.Done():
			// a cancelled request still completes if the block is local (as kubo does)
			p.mu.Lock()
			for i, x := range p.parked {
				if x == pf {
					p.parked = append(p.parked[:i:i], p.parked[i+1:]...)
					break
				}
			}
			p.mu.Unlock()
		}
	}

	w := p.W
	stop := context.AfterFunc(ctx, func() {
		w.mu.Lock()
		w.cond.Broadcast()
		w.mu.Unlock()
	})
	defer stop()

	for {
		// local blocks are served whatever the state of ctx
		if p.hasLocal(c) {
			return d.APIDagService.Get(context.Background(), c)
		}
		if err := ctx.Err(); err != nil {
			return nil, err
		}
		w.mu.Lock()
		var src *Peer
		for _, q := range w.Peers {
			if q != p && w.linkedLocked(p.Idx, q.Idx) && q.hasLocal(c) {
				src = q
				break
			}
		}
		if src == nil {
			if p.Offline || w.closed {
				w.mu.Unlock()
				return nil, ipld.ErrNotFound{Cid: c}
			}
			w.cond.Wait()
			w.mu.Unlock()
			continue
		}
		w.mu.Unlock()
		blk, err := src.node.Blockstore.Get(context.Background(), c)
		if err != nil {
			continue
		}
		if err := p.node.Blockstore.Put(context.Background(), blk); err != nil {
			return nil, err
		}
		p.Journal.add(Effect{Kind: "block", Cid: c.String(), Value: blk.RawData()})
	}
}

func (d *netDAG) GetMany(ctx context.Context, cs []cid.Cid) <-chan *ipld.NodeOption {
	out := make(chan *ipld.NodeOption, len(cs))
	go func() {
		defer close(out)
		for _, c := range cs {
			n, err := d.Get(ctx, c)
			out <- &ipld.NodeOption{Node: n, Err: err}
		}
	}()
	return out
}
