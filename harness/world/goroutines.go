package world

import (
	"regexp"
	"runtime"
	"strconv"
	"strings"
)

// Goroutine is one parsed record of a full stack dump.
type Goroutine struct {
	ID      int
	State   string
	Creator string // function that started it
	Stack   string
}

var goHeader = regexp.MustCompile(`^goroutine (\d+) \[([^\]]*)\]:`)

// Goroutines parses runtime.Stack(all).
func Goroutines() []Goroutine {
	buf := make([]byte, 1<<20)
	for {
		n := runtime.Stack(buf, true)
		if n < len(buf) {
			buf = buf[:n]
			break
		}
		buf = make([]byte, 2*len(buf))
	}
	var out []Goroutine
	for _, block := range strings.Split(string(buf), "\n\n") {
		lines := strings.Split(strings.TrimSpace(block), "\n")
		if len(lines) == 0 {
			continue
		}
		m := goHeader.FindStringSubmatch(lines[0])
		if m == nil {
			continue
		}
		id, _ := strconv.Atoi(m[1])
		g := Goroutine{ID: id, State: m[2], Stack: block}
		for _, l := range lines {
			if strings.HasPrefix(l, "created by ") {
				c := strings.TrimPrefix(l, "created by ")
				if i := strings.Index(c, " in goroutine"); i >= 0 {
					c = c[:i]
				}
				g.Creator = c
			}
		}
		out = append(out, g)
	}
	return out
}

// OrbitGoroutines returns the goroutines started by go-orbit-db code that are
// not in the before set.
func OrbitGoroutines(before map[int]bool) []Goroutine {
	var out []Goroutine
	for _, g := range Goroutines() {
		if before[g.ID] {
			continue
		}
		if strings.HasPrefix(g.Creator, "berty.tech/go-orbit-db/") && !strings.HasPrefix(g.Creator, "berty.tech/go-orbit-db/verifhook") {
			out = append(out, g)
		}
	}
	return out
}

// GoroutineIDs returns the ids of all current goroutines.
func GoroutineIDs() map[int]bool {
	m := map[int]bool{}
	for _, g := range Goroutines() {
		m[g.ID] = true
	}
	return m
}
