package world

import (
	"context"
	"errors"
	"path"
	"strings"
	"sync"

	"berty.tech/go-orbit-db/address"
	"berty.tech/go-orbit-db/cache"
	blocks "github.com/ipfs/go-block-format"
	cid "github.com/ipfs/go-cid"
	ds "github.com/ipfs/go-datastore"
	"github.com/ipfs/go-datastore/query"
	dsync "github.com/ipfs/go-datastore/sync"
)

// Effect is one persistence effect issued by a peer, in issue order.
type Effect struct {
	Seq   int
	Kind  string // "block", "cache.put", "cache.del", "ks.put", "ks.del", "mark"
	Store string // cache path (for cache.*)
	Key   string
	Cid   string
	Value []byte
	Note  string // for marks
}

// Journal records effects.
type Journal struct {
	mu  sync.Mutex
	Eff []Effect
}

func (j *Journal) add(e Effect) {
	j.mu.Lock()
	e.Seq = len(j.Eff)
	j.Eff = append(j.Eff, e)
	j.mu.Unlock()
}

// Mark inserts an acknowledgement marker.
func (j *Journal) Mark(note string) { j.add(Effect{Kind: "mark", Note: note}) }

// Snapshot returns a copy of the effects so far.
func (j *Journal) Snapshot() []Effect {
	j.mu.Lock()
	defer j.mu.Unlock()
	return append([]Effect{}, j.Eff...)
}

// Len is the number of effects so far.
func (j *Journal) Len() int {
	j.mu.Lock()
	defer j.mu.Unlock()
	return len(j.Eff)
}

// Disk is a peer's restart-surviving storage: one datastore per database
// cache path plus the keystore datastore.
type Disk struct {
	mu        sync.Mutex
	j         *Journal
	stores    map[string]ds.Datastore
	ks        ds.Datastore
	Destroyed []string
	// putFaults: pending write faults (see FailPuts)
	putFaults []*putFault
}

type putFault struct {
	match string
	skip  int
	left  int
}

// FailPutsAfter is FailPuts that lets the first skip matching Puts through.
func (d *Disk) FailPutsAfter(match string, skip, n int) {
	d.mu.Lock()
	d.putFaults = append(d.putFaults, &putFault{match: match, skip: skip, left: n})
	d.mu.Unlock()
}

// FailPuts makes the next n datastore Puts whose key contains match fail with an I/O error (nothing is
// written, nothing is journaled): a transient storage fault.
func (d *Disk) FailPuts(match string, n int) {
	d.mu.Lock()
	d.putFaults = append(d.putFaults, &putFault{match: match, left: n})
	d.mu.Unlock()
}

// ClearPutFaults disarms the injected write faults that have not fired.
func (d *Disk) ClearPutFaults() {
	d.mu.Lock()
	d.putFaults = nil
	d.mu.Unlock()
}

// PendingPutFaults reports how many injected write faults have not fired yet.
func (d *Disk) PendingPutFaults() int {
	d.mu.Lock()
	defer d.mu.Unlock()
	n := 0
	for _, f := range d.putFaults {
		n += f.left
	}
	return n
}

func (d *Disk) putFails(key string) bool {
	d.mu.Lock()
	defer d.mu.Unlock()
	for _, f := range d.putFaults {
		if f.left > 0 && strings.Contains(key, f.match) {
			if f.skip > 0 {
				f.skip--
				continue
			}
			f.left--
			return true
		}
	}
	return false
}

// NewDisk creates an empty disk journaling into j.
func NewDisk(j *Journal) *Disk {
	return &Disk{j: j, stores: map[string]ds.Datastore{}, ks: dsync.MutexWrap(ds.NewMapDatastore())}
}

// PreloadKeys stores the deterministic key pair of slot into the keystore.
func (d *Disk) PreloadKeys(slot int) {
	keyOnce.Do(initKeys)
	k := keys[slot]
	_ = d.ks.Put(context.Background(), ds.NewKey(k.peerID.String()), k.rawA)
	_ = d.ks.Put(context.Background(), ds.NewKey(k.identityID), k.rawB)
}

// KeystoreDS returns the (journaled) keystore datastore.
func (d *Disk) KeystoreDS() ds.Datastore {
	return &journaledDS{inner: d.ks, j: d.j, kind: "ks"}
}

// RawKeystore returns the keystore datastore without journaling.
func (d *Disk) RawKeystore() ds.Datastore { return d.ks }

// Cache returns a fresh cache.Interface view over the disk (one per instance).
func (d *Disk) Cache() cache.Interface { return &diskCache{d: d} }

// Paths lists the cache paths present.
func (d *Disk) Paths() []string {
	d.mu.Lock()
	defer d.mu.Unlock()
	var out []string
	for k := range d.stores {
		out = append(out, k)
	}
	return out
}

// Store returns the raw datastore for a cache path (creating it).
func (d *Disk) Store(p string) ds.Datastore {
	d.mu.Lock()
	defer d.mu.Unlock()
	s, ok := d.stores[p]
	if !ok {
		s = dsync.MutexWrap(ds.NewMapDatastore())
		d.stores[p] = s
	}
	return s
}

// Has reports whether a cache path exists.
func (d *Disk) Has(p string) bool {
	d.mu.Lock()
	defer d.mu.Unlock()
	_, ok := d.stores[p]
	return ok
}

// Apply replays one effect onto the disk (used to materialise crash images).
func (d *Disk) Apply(e Effect) {
	ctx := context.Background()
	switch e.Kind {
	case "cache.put":
		_ = d.Store(e.Store).Put(ctx, ds.NewKey(e.Key), e.Value)
	case "cache.del":
		_ = d.Store(e.Store).Delete(ctx, ds.NewKey(e.Key))
	case "ks.put":
		_ = d.ks.Put(ctx, ds.NewKey(e.Key), e.Value)
	case "ks.del":
		_ = d.ks.Delete(ctx, ds.NewKey(e.Key))
	}
}

// CachePath mirrors cacheleveldown's directory layout.
func CachePath(directory string, a address.Address) string {
	return path.Join(directory, a.GetRoot().String(), a.GetPath())
}

type diskCache struct {
	d *Disk
}

func (c *diskCache) Load(directory string, a address.Address) (ds.Datastore, error) {
	p := CachePath(directory, a)
	return &journaledDS{inner: c.d.Store(p), j: c.d.j, kind: "cache", store: p, d: c.d}, nil
}

func (c *diskCache) Close() error { return nil }

func (c *diskCache) Destroy(directory string, a address.Address) error {
	p := CachePath(directory, a)
	c.d.mu.Lock()
	delete(c.d.stores, p)
	c.d.Destroyed = append(c.d.Destroyed, p)
	c.d.mu.Unlock()
	c.d.j.add(Effect{Kind: "cache.destroy", Store: p})
	return nil
}

type journaledDS struct {
	inner ds.Datastore
	j     *Journal
	kind  string
	store string
	d     *Disk
}

func (w *journaledDS) Get(ctx context.Context, k ds.Key) ([]byte, error) { return w.inner.Get(ctx, k) }
func (w *journaledDS) Has(ctx context.Context, k ds.Key) (bool, error)   { return w.inner.Has(ctx, k) }
func (w *journaledDS) GetSize(ctx context.Context, k ds.Key) (int, error) {
	return w.inner.GetSize(ctx, k)
}
func (w *journaledDS) Query(ctx context.Context, q query.Query) (query.Results, error) {
	return w.inner.Query(ctx, q)
}
func (w *journaledDS) Put(ctx context.Context, k ds.Key, v []byte) error {
	if w.d != nil && w.d.putFails(k.String()) {
		return errors.New("simulated write failure (input/output error)")
	}
	if err := w.inner.Put(ctx, k, v); err != nil {
		return err
	}
	w.j.add(Effect{Kind: w.kind + ".put", Store: w.store, Key: k.String(), Value: append([]byte{}, v...)})
	return nil
}
func (w *journaledDS) Delete(ctx context.Context, k ds.Key) error {
	if err := w.inner.Delete(ctx, k); err != nil {
		return err
	}
	w.j.add(Effect{Kind: w.kind + ".del", Store: w.store, Key: k.String()})
	return nil
}
func (w *journaledDS) Sync(ctx context.Context, k ds.Key) error { return w.inner.Sync(ctx, k) }
func (w *journaledDS) Close() error                             { return nil }

var _ ds.Datastore = &journaledDS{}
var _ cache.Interface = &diskCache{}

// MaterialisePrefix builds a detached, offline peer holding exactly the given
// persistence effects (blocks and datastore writes), as a crash would leave it.
func MaterialisePrefix(slot int, effects []Effect) (*Peer, error) {
	p, err := NewDetachedPeer(slot)
	if err != nil {
		return nil, err
	}
	ctx := context.Background()
	for _, e := range effects {
		switch e.Kind {
		case "block":
			c, err := cid.Decode(e.Cid)
			if err != nil {
				continue
			}
			blk, err := blocks.NewBlockWithCid(e.Value, c)
			if err != nil {
				continue
			}
			if err := p.node.Blockstore.Put(ctx, blk); err != nil {
				p.Shutdown()
				return nil, err
			}
		case "cache.destroy":
			p.Disk.mu.Lock()
			delete(p.Disk.stores, e.Store)
			p.Disk.mu.Unlock()
		default:
			p.Disk.Apply(e)
		}
	}
	return p, nil
}
