package world

import (
	"errors"
	"fmt"
	"runtime"
	"time"

	"berty.tech/go-orbit-db/iface"
	"berty.tech/go-orbit-db/stores/replicator"
)

// ErrInconclusive is returned when a deadline passes while the system is
// still visibly working: never a verdict.
var ErrInconclusive = errors.New("inconclusive: deadline reached while the system was still active")

type statser interface {
	VerifStats() replicator.VerifStats
}

// Stats returns the replicator bookkeeping of a store.
func Stats(s iface.Store) replicator.VerifStats {
	if st, ok := s.Replicator().(statser); ok {
		return st.VerifStats()
	}
	return replicator.VerifStats{}
}

type vec []int64

func (a vec) eq(b vec) bool {
	if len(a) != len(b) {
		return false
	}
	for i := range a {
		if a[i] != b[i] {
			return false
		}
	}
	return true
}

// wedgeWindow: how long nothing at all must have moved, with nothing outstanding, before WaitClaim calls it a wedge.
const wedgeWindow = 10 * time.Second

// QuiesceOpts tunes the rest detector.
type QuiesceOpts struct {
	// AllowHeld: messages deliberately held by the harness do not count as activity.
	AllowHeld bool
	// ParkedLoads: number of replicator loads the harness itself keeps parked per store index.
	ParkedLoads map[int]int64
	// StableOnly: do not require rest, only that nothing observable moved over a few fast polls (used
	// between the steps of a fault script so that the next step sees a settled set of held messages).
	StableOnly bool
}

func (w *World) snapshot(stores []iface.Store, o *QuiesceOpts) (vec, bool) {
	v := vec{w.Pending(), int64(w.LogLen())}
	ok := w.Pending() == 0
	if !o.AllowHeld && w.Held() > 0 {
		ok = false
	}
	for i, s := range stores {
		r := s.Replicator()
		spawn := HookCount("store.sync.spawn", r)
		enter := HookCount("replicator.load.enter", r)
		reg := HookCount("replicator.load.registered", r)
		exit := HookCount("replicator.load.exit", r)
		emit := HookCount("replicator.loadend.emit", r)
		done := HookCount("store.loadcomplete.done", r)
		persisted := HookCount("store.addop.persisted", r)
		handled := HookCount("store.write.handled", r)
		st := Stats(s)
		v = append(v, spawn, enter, reg, exit, emit, done, persisted, handled,
			int64(st.Queued), int64(st.InProgress), int64(st.Buffered), int64(st.Added), int64(st.Fetching), int64(st.Fetched),
			int64(s.OpLog().Len()), int64(s.ReplicationStatus().GetProgress()), int64(s.ReplicationStatus().GetMax()))
		var parked int64
		if o.ParkedLoads != nil {
			parked = o.ParkedLoads[i]
		}
		if spawn != enter || enter != reg || enter-exit != parked || done < emit {
			ok = false
		}
	}
	return v, ok
}

// Quiescent reports whether the system is at rest right now (single look;
// use WaitQuiescent for the stable version).
func (w *World) Quiescent(stores []iface.Store, o *QuiesceOpts) bool {
	if o == nil {
		o = &QuiesceOpts{}
	}
	_, ok := w.snapshot(stores, o)
	return ok
}

// WaitQuiescent waits until the rest condition holds and the whole counter
// vector is unchanged over several consecutive polls. It returns false if the
// deadline passes first.
func (w *World) WaitQuiescent(stores []iface.Store, o *QuiesceOpts, timeout time.Duration) bool {
	if o == nil {
		o = &QuiesceOpts{}
	}
	deadline := time.Now().Add(timeout)
	var last vec
	stable := 0
	sleep := time.Millisecond
	for {
		v, ok := w.snapshot(stores, o)
		if o.StableOnly {
			ok = true
		}
		if ok && last != nil && v.eq(last) {
			stable++
		} else {
			stable = 0
		}
		last = v
		need := 4
		if o.StableOnly {
			need = 8
		}
		if stable >= need {
			return true
		}
		if time.Now().After(deadline) {
			return false
		}
		runtime.Gosched()
		if o.StableOnly {
			time.Sleep(500 * time.Microsecond)
			continue
		}
		time.Sleep(sleep)
		if ok {
			if sleep < 5*time.Millisecond {
				sleep += time.Millisecond
			}
		} else {
			sleep = time.Millisecond
		}
	}
}

// WaitFor polls cond until it is true or the timeout passes.
func WaitFor(cond func() bool, timeout time.Duration) bool {
	deadline := time.Now().Add(timeout)
	sleep := 200 * time.Microsecond
	for {
		if cond() {
			return true
		}
		if time.Now().After(deadline) {
			return false
		}
		time.Sleep(sleep)
		if sleep < 5*time.Millisecond {
			sleep *= 2
		}
	}
}

// WaitClaim waits for a positive claim. nil: the claim became true.
// ErrInconclusive: deadline passed and the system was never seen at rest. Any
// other error: the system is at rest (a wedge) and the claim is still false.
// Time alone never produces the non-nil, non-inconclusive result: the rest
// condition is read from hook counters and replicator state; the second way to
// that result is a wedge - not at rest by the counters (a request never left the
// replicator), yet nothing has moved for wedgeWindow while no fetch, message or
// storage operation (all owned by the harness) is outstanding.
func (w *World) WaitClaim(what string, claim func() bool, stores []iface.Store, o *QuiesceOpts, timeout time.Duration) error {
	deadline := time.Now().Add(timeout)
	if o == nil {
		o = &QuiesceOpts{}
	}
	var lastVec vec
	lastMove := time.Now()
	for {
		if WaitFor(claim, 50*time.Millisecond) {
			return nil
		}
		// a wedge that is not a rest: every input of the system is owned by the harness (block fetches, topic
		// and direct-channel messages, storage), so when none of them is outstanding and no counter, replicator
		// figure or log length has moved for wedgeWindow, no goroutine of the code under test is computing or
		// waiting for the outside: those still inside a call are waiting for each other (a lock that is never
		// released, a slot that is never handed back). That is decided as "the claim does not come true".
		v, _ := w.snapshot(stores, o)
		v = append(v, w.InflightFetches(), int64(w.Held()))
		if lastVec == nil || !v.eq(lastVec) {
			lastVec, lastMove = v, time.Now()
		} else if time.Since(lastMove) > wedgeWindow && w.InflightFetches() == 0 && w.Pending() == 0 && (o.AllowHeld || w.Held() == 0) && !claim() {
			return fmt.Errorf("nothing has moved for %s, no fetch and no message is outstanding, and the claim is still false (the replica is wedged): %s", wedgeWindow, what)
		}
		if w.WaitQuiescent(stores, o, 200*time.Millisecond) {
			// at rest: a grace period, then rest must still hold
			if WaitFor(claim, 400*time.Millisecond) {
				return nil
			}
			if w.WaitQuiescent(stores, o, 200*time.Millisecond) && !claim() {
				return fmt.Errorf("system at rest but claim still false: %s", what)
			}
		}
		if time.Now().After(deadline) {
			if claim() {
				return nil
			}
			return ErrInconclusive
		}
	}
}
