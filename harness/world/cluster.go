package world

import (
	"context"
	"fmt"
	"sort"
	"time"

	ipfslog "berty.tech/go-ipfs-log"
	orbitdb "berty.tech/go-orbit-db"
	"berty.tech/go-orbit-db/accesscontroller"
	"berty.tech/go-orbit-db/iface"
)

// Cluster is n peers that all opened the same database.
type Cluster struct {
	W      *World
	Type   string
	Addr   string
	Stores []iface.Store
	// ACOpts, when set, builds the access-controller options every opener has to pass (controllers
	// whose list is not in the manifest)
	ACOpts func() accesscontroller.ManifestParams
}

// OpenOpts completes open options with what this cluster's access controller needs.
func (c *Cluster) OpenOpts(o *orbitdb.CreateDBOptions) *orbitdb.CreateDBOptions {
	if c.ACOpts != nil && o.AccessController == nil {
		o.AccessController = c.ACOpts()
	}
	return o
}

// ClusterOpts configures NewCluster.
type ClusterOpts struct {
	N         int
	Slots     []int  // key slot per peer (nil: 0..N-1)
	Type      string // eventlog | keyvalue | docstore
	Name      string
	Writers   []int // peer indices with write access (nil: all); -1 means "*"
	OpenOn    []int // peers that open the db (nil: all)
	Replicate *bool
	DefaultAC bool // create without access-controller options (creator only)
	// ACType "simple": the bundled in-memory controller — the list is not recorded in the manifest, every
	// opener passes it itself (SkipManifest); "" = the default ipfs controller
	ACType string
}

// WriteList turns peer indices into identity ids.
func (w *World) WriteList(writers []int) []string {
	var ids []string
	for _, i := range writers {
		if i < 0 {
			ids = append(ids, "*")
			continue
		}
		ids = append(ids, IdentityID(w.Peers[i].Slot))
	}
	return ids
}

// NewCluster builds the world, starts an instance per peer, creates the
// database on peer 0 and opens it on the others; every store is loaded.
func NewCluster(ctx context.Context, o ClusterOpts) (*Cluster, error) {
	w, err := New(o.N, o.Slots)
	if err != nil {
		return nil, err
	}
	c := &Cluster{W: w, Type: o.Type}
	ok := false
	defer func() {
		if !ok {
			w.Close()
		}
	}()
	for _, p := range w.Peers {
		if _, err := p.StartInstance(ctx); err != nil {
			return nil, fmt.Errorf("start instance %d: %w", p.Idx, err)
		}
	}
	writers := o.Writers
	if writers == nil {
		for i := 0; i < o.N; i++ {
			writers = append(writers, i)
		}
	}
	name := o.Name
	if name == "" {
		name = "db"
	}
	copts := &orbitdb.CreateDBOptions{Replicate: o.Replicate}
	if !o.DefaultAC {
		copts.AccessController = &accesscontroller.CreateAccessControllerOptions{Access: map[string][]string{"write": w.WriteList(writers)}}
	}
	if o.ACType == "simple" {
		c.ACOpts = func() accesscontroller.ManifestParams {
			return &accesscontroller.CreateAccessControllerOptions{SkipManifest: true, Type: "simple", Access: map[string][]string{"write": w.WriteList(writers)}}
		}
		copts.AccessController = c.ACOpts()
	}
	s0, err := w.Peers[0].DB.Create(ctx, name, o.Type, copts)
	if err != nil {
		return nil, fmt.Errorf("create: %w", err)
	}
	c.Addr = s0.Address().String()
	c.Stores = make([]iface.Store, o.N)
	c.Stores[0] = s0
	open := o.OpenOn
	if open == nil {
		for i := 1; i < o.N; i++ {
			open = append(open, i)
		}
	}
	for _, i := range open {
		if i == 0 {
			continue
		}
		s, err := w.Peers[i].DB.Open(ctx, c.Addr, c.OpenOpts(&orbitdb.CreateDBOptions{Replicate: o.Replicate}))
		if err != nil {
			return nil, fmt.Errorf("open on %d: %w", i, err)
		}
		c.Stores[i] = s
	}
	for i, s := range c.Stores {
		if s == nil {
			continue
		}
		if err := s.Load(ctx, -1); err != nil {
			return nil, fmt.Errorf("load on %d: %w", i, err)
		}
	}
	ok = true
	return c, nil
}

// Close shuts everything down.
func (c *Cluster) Close() { c.W.Close() }

// Open stores (non-nil).
func (c *Cluster) Open() []iface.Store {
	var out []iface.Store
	for _, s := range c.Stores {
		if s != nil {
			out = append(out, s)
		}
	}
	return out
}

// Reopen restarts peer i's instance and reopens + loads the database.
func (c *Cluster) Reopen(ctx context.Context, i int) error { return c.ReopenLimit(ctx, i, -1) }

// ReopenLimit is Reopen with Load(amount).
func (c *Cluster) ReopenLimit(ctx context.Context, i int, amount int) error {
	return c.ReopenWith(ctx, i, amount, &orbitdb.CreateDBOptions{})
}

// ReopenWith restarts peer i's instance and reopens the database with the given options, then Load(amount).
func (c *Cluster) ReopenWith(ctx context.Context, i int, amount int, opts *orbitdb.CreateDBOptions) error {
	p := c.W.Peers[i]
	p.StopInstance()
	if _, err := p.StartInstance(ctx); err != nil {
		return err
	}
	s, err := p.DB.Open(ctx, c.Addr, c.OpenOpts(opts))
	if err != nil {
		return err
	}
	c.Stores[i] = s
	return s.Load(ctx, amount)
}

// Settle waits for rest.
func (c *Cluster) Settle(timeout time.Duration) bool {
	return c.W.WaitQuiescent(c.Open(), nil, timeout)
}

// Hashes returns the entry hashes of Values() in order.
func Hashes(s iface.Store) []string {
	vals := s.OpLog().Values().Slice()
	out := make([]string, len(vals))
	for i, e := range vals {
		out[i] = e.GetHash().String()
	}
	return out
}

// HashSet returns the set of entry hashes held (GetEntries, sorted).
func HashSet(s iface.Store) []string {
	es := s.OpLog().GetEntries().Slice()
	out := make([]string, len(es))
	for i, e := range es {
		out[i] = e.GetHash().String()
	}
	sort.Strings(out)
	return out
}

// HeadHashes returns the sorted head hashes.
func HeadHashes(s iface.Store) []string {
	es := s.OpLog().Heads().Slice()
	out := make([]string, len(es))
	for i, e := range es {
		out[i] = e.GetHash().String()
	}
	sort.Strings(out)
	return out
}

// Heads returns the current heads as entries.
func Heads(s iface.Store) []ipfslog.Entry { return s.OpLog().Heads().Slice() }

// Has reports whether the store's log holds hash h.
func Has(s iface.Store, h string) bool {
	for _, e := range s.OpLog().GetEntries().Slice() {
		if e.GetHash().String() == h {
			return true
		}
	}
	return false
}
