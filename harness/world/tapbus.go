package world

import (
	"reflect"

	"github.com/libp2p/go-libp2p/core/event"
	"github.com/libp2p/go-libp2p/p2p/host/eventbus"
)

// TapBus is an event bus handed to a store under test: every Emit first calls
// OnEmit synchronously, in the emitting goroutine, and is then forwarded to a
// real libp2p bus. The harness thereby learns of an event at the very moment
// it is emitted (e.g. to place an acknowledgement mark in the journal between
// the persistence effects issued before and after the emission), which a
// subscriber goroutine cannot.
type TapBus struct {
	inner  event.Bus
	OnEmit func(evt interface{})
}

// NewTapBus wraps a fresh bus.
func NewTapBus(onEmit func(evt interface{})) *TapBus {
	return &TapBus{inner: eventbus.NewBus(), OnEmit: onEmit}
}

func (b *TapBus) Subscribe(eventType interface{}, opts ...event.SubscriptionOpt) (event.Subscription, error) {
	return b.inner.Subscribe(eventType, opts...)
}

func (b *TapBus) Emitter(eventType interface{}, opts ...event.EmitterOpt) (event.Emitter, error) {
	e, err := b.inner.Emitter(eventType, opts...)
	if err != nil {
		return nil, err
	}
	return &tapEmitter{Emitter: e, b: b}, nil
}

func (b *TapBus) GetAllEventTypes() []reflect.Type { return b.inner.GetAllEventTypes() }

type tapEmitter struct {
	event.Emitter
	b *TapBus
}

func (e *tapEmitter) Emit(evt interface{}) error {
	if e.b.OnEmit != nil {
		e.b.OnEmit(evt)
	}
	return e.Emitter.Emit(evt)
}

var _ event.Bus = &TapBus{}
