package world

import (
	"context"
	"fmt"
	"sync"
	"sync/atomic"

	"berty.tech/go-orbit-db/events"
	"berty.tech/go-orbit-db/iface"
	"github.com/libp2p/go-libp2p/core/peer"
)

// pump is an unbounded FIFO feeding a consumer function from one goroutine.
type pump struct {
	w      *World
	mu     sync.Mutex
	cond   *sync.Cond
	items  []interface{}
	closed bool
}

func newPump(w *World, consume func(interface{}) bool, onExit func()) *pump {
	p := &pump{w: w}
	p.cond = sync.NewCond(&p.mu)
	go func() {
		defer func() {
			if onExit != nil {
				onExit()
			}
		}()
		for {
			p.mu.Lock()
			for len(p.items) == 0 && !p.closed {
				p.cond.Wait()
			}
			if p.closed {
				atomic.AddInt64(&w.pending, -int64(len(p.items)))
				p.items = nil
				p.mu.Unlock()
				return
			}
			it := p.items[0]
			p.items = p.items[1:]
			p.mu.Unlock()
			ok := consume(it)
			atomic.AddInt64(&w.pending, -1)
			if !ok {
				p.close()
			}
		}
	}()
	return p
}

func (p *pump) push(it interface{}) {
	p.mu.Lock()
	if p.closed {
		p.mu.Unlock()
		return
	}
	atomic.AddInt64(&p.w.pending, 1)
	p.items = append(p.items, it)
	p.cond.Signal()
	p.mu.Unlock()
}

func (p *pump) close() {
	p.mu.Lock()
	p.closed = true
	p.cond.Broadcast()
	p.mu.Unlock()
}

// ---------------------------------------------------------------------------
// pubsub

type simPubSub struct {
	w *World
	p *Peer
}

type subscription struct {
	w     *World
	p     *Peer
	topic string
	ctx   context.Context

	peerPump *pump
	msgPump  *pump
	peerCh   chan events.Event
	msgCh    chan *iface.EventPubSubMessage
}

func (ps *simPubSub) TopicSubscribe(ctx context.Context, topic string) (iface.PubSubTopic, error) {
	w := ps.w
	s := &subscription{w: w, p: ps.p, topic: topic, ctx: ctx,
		peerCh: make(chan events.Event), msgCh: make(chan *iface.EventPubSubMessage)}
	s.peerPump = newPump(w, func(it interface{}) bool {
		select {
		case s.peerCh <- it:
			return true
		case <-ctx.Done():
			return false
		}
	}, func() { close(s.peerCh) })
	s.msgPump = newPump(w, func(it interface{}) bool {
		select {
		case s.msgCh <- it.(*iface.EventPubSubMessage):
			return true
		case <-ctx.Done():
			return false
		}
	}, func() { close(s.msgCh) })

	w.mu.Lock()
	// existing linked members see the newcomer, the newcomer sees them
	for _, o := range w.topics[topic] {
		if o.p != s.p && w.linkedLocked(o.p.Idx, s.p.Idx) {
			o.pushPeerEvent(topic, s.p.ID, true)
			s.pushPeerEvent(topic, o.p.ID, true)
		}
	}
	w.topics[topic] = append(w.topics[topic], s)
	w.mu.Unlock()

	context.AfterFunc(ctx, func() {
		w.mu.Lock()
		subs := w.topics[topic]
		for i, o := range subs {
			if o == s {
				w.topics[topic] = append(subs[:i:i], subs[i+1:]...)
				break
			}
		}
		for _, o := range w.topics[topic] {
			if o.p != s.p && w.linkedLocked(o.p.Idx, s.p.Idx) {
				o.pushPeerEvent(topic, s.p.ID, false)
			}
		}
		w.mu.Unlock()
		s.peerPump.close()
		s.msgPump.close()
	})
	return s, nil
}

func (s *subscription) pushPeerEvent(topic string, id peer.ID, join bool) {
	if join {
		s.peerPump.push(&iface.EventPubSubJoin{Topic: topic, Peer: id})
	} else {
		s.peerPump.push(&iface.EventPubSubLeave{Topic: topic, Peer: id})
	}
}

func (s *subscription) pushMessage(data []byte) {
	s.msgPump.push(&iface.EventPubSubMessage{Content: append([]byte{}, data...)})
}

func (s *subscription) Publish(ctx context.Context, message []byte) error {
	if err := ctx.Err(); err != nil {
		return err
	}
	w := s.w
	w.mu.Lock()
	var dst []int
	seen := map[int]bool{}
	for _, o := range w.topics[s.topic] {
		if o.p != s.p && !seen[o.p.Idx] && w.linkedLocked(o.p.Idx, s.p.Idx) {
			seen[o.p.Idx] = true
			dst = append(dst, o.p.Idx)
		}
	}
	w.mu.Unlock()
	for _, j := range dst {
		w.emit(&Message{Kind: "topic", From: s.p.Idx, To: j, Topic: s.topic, Data: append([]byte{}, message...)})
	}
	return nil
}

// HoldPeers makes every later Peers() lookup of peer p on topic park until the
// returned release function is called (a slow peer lookup).
func (w *World) HoldPeers(p int, topic string) (release func(), parked func() int) {
	return w.holdPeers(p, topic, false)
}

// HoldPeersHard is HoldPeers for a lookup that does not honour its context either (a pubsub layer that is stuck,
// not merely slow): it returns only when released.
func (w *World) HoldPeersHard(p int, topic string) (release func(), parked func() int) {
	return w.holdPeers(p, topic, true)
}

func (w *World) holdPeers(p int, topic string, hard bool) (release func(), parked func() int) {
	gate := make(chan struct{})
	w.mu.Lock()
	if w.peerHolds == nil {
		w.peerHolds = map[string]chan struct{}{}
		w.peerParked = map[string]*int64{}
	}
	k := fmt.Sprintf("%d|%s", p, topic)
	w.peerHolds[k] = gate
	if w.peerHard == nil {
		w.peerHard = map[string]bool{}
	}
	w.peerHard[k] = hard
	var n int64
	w.peerParked[k] = &n
	w.mu.Unlock()
	var once sync.Once
	return func() {
			once.Do(func() {
				w.mu.Lock()
				delete(w.peerHolds, k)
				w.mu.Unlock()
				close(gate)
			})
		}, func() int {
			return int(atomic.LoadInt64(&n))
		}
}

func (s *subscription) Peers(ctx context.Context) ([]peer.ID, error) {
	w := s.w
	k := fmt.Sprintf("%d|%s", s.p.Idx, s.topic)
	w.mu.Lock()
	gate := w.peerHolds[k]
	cnt := w.peerParked[k]
	hard := w.peerHard[k]
	w.mu.Unlock()
	if gate != nil {
		atomic.AddInt64(cnt, 1)
		if hard {
			<-gate
		} else {
			select {
			case <-gate:
			case <-ctx.Done():
				return nil, ctx.Err()
			}
		}
	}
	w.mu.Lock()
	defer w.mu.Unlock()
	var out []peer.ID
	seen := map[int]bool{}
	for _, o := range w.topics[s.topic] {
		if o.p != s.p && !seen[o.p.Idx] && w.linkedLocked(o.p.Idx, s.p.Idx) {
			seen[o.p.Idx] = true
			out = append(out, o.p.ID)
		}
	}
	return out, nil
}

func (s *subscription) WatchPeers(ctx context.Context) (<-chan events.Event, error) {
	return s.peerCh, nil
}

func (s *subscription) WatchMessages(ctx context.Context) (<-chan *iface.EventPubSubMessage, error) {
	return s.msgCh, nil
}

func (s *subscription) Topic() string { return s.topic }

// TopicMembers lists the peer indices subscribed to topic.
func (w *World) TopicMembers(topic string) []int {
	w.mu.Lock()
	defer w.mu.Unlock()
	var out []int
	for _, s := range w.topics[topic] {
		out = append(out, s.p.Idx)
	}
	return out
}

// InjectTopic delivers raw bytes to peer to's subscription of topic, as if
// published by a remote peer.
func (w *World) InjectTopic(to int, topic string, data []byte) bool {
	w.mu.Lock()
	defer w.mu.Unlock()
	ok := false
	for _, s := range w.topics[topic] {
		if s.p.Idx == to {
			s.pushMessage(data)
			ok = true
		}
	}
	return ok
}

// InjectDirect emits raw bytes as a direct-channel payload at peer to, as if
// sent by peer from.
func (w *World) InjectDirect(from, to int, data []byte) bool {
	dst := w.Peers[to]
	dst.mu.Lock()
	d := dst.direct
	dst.mu.Unlock()
	if d == nil {
		return false
	}
	d.push(&iface.EventPubSubPayload{Payload: append([]byte{}, data...), Peer: w.Peers[from].ID})
	return true
}

// ---------------------------------------------------------------------------
// direct channel

type simDirect struct {
	w       *World
	p       *Peer
	emitter iface.DirectChannelEmitter
	pump    *pump
	closed  int32
}

func (p *Peer) directFactory() iface.DirectChannelFactory {
	return func(ctx context.Context, emitter iface.DirectChannelEmitter, opts *iface.DirectChannelOptions) (iface.DirectChannel, error) {
		d := &simDirect{w: p.W, p: p, emitter: emitter}
		d.pump = newPump(p.W, func(it interface{}) bool {
			if atomic.LoadInt32(&d.closed) != 0 {
				return false
			}
			_ = emitter.Emit(it.(*iface.EventPubSubPayload))
			return true
		}, nil)
		p.mu.Lock()
		p.direct = d
		p.mu.Unlock()
		return d, nil
	}
}

func (d *simDirect) push(e *iface.EventPubSubPayload) { d.pump.push(e) }

func (d *simDirect) target(id peer.ID) (*Peer, error) {
	for _, q := range d.w.Peers {
		if q.ID == id {
			return q, nil
		}
	}
	return nil, fmt.Errorf("unknown peer %s", id)
}

func (d *simDirect) Connect(ctx context.Context, id peer.ID) error {
	if err := ctx.Err(); err != nil {
		return err
	}
	q, err := d.target(id)
	if err != nil {
		return err
	}
	if !d.w.Linked(d.p.Idx, q.Idx) {
		return fmt.Errorf("peer %d unreachable", q.Idx)
	}
	return nil
}

func (d *simDirect) Send(ctx context.Context, id peer.ID, data []byte) error {
	if err := ctx.Err(); err != nil {
		return err
	}
	if atomic.LoadInt32(&d.closed) != 0 {
		return fmt.Errorf("direct channel closed")
	}
	q, err := d.target(id)
	if err != nil {
		return err
	}
	if !d.w.Linked(d.p.Idx, q.Idx) {
		return fmt.Errorf("peer %d unreachable", q.Idx)
	}
	d.w.emit(&Message{Kind: "direct", From: d.p.Idx, To: q.Idx, Data: append([]byte{}, data...)})
	return nil
}

func (d *simDirect) Close() error {
	atomic.StoreInt32(&d.closed, 1)
	d.p.mu.Lock()
	if d.p.direct == d {
		d.p.direct = nil
	}
	d.p.mu.Unlock()
	d.pump.close()
	return d.emitter.Close()
}
