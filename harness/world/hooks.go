// Package world is the simulated environment the checks run go-orbit-db in:
// offline kubo nodes joined by a harness-controlled block exchange, an
// injected pubsub and direct channel whose deliveries the harness owns,
// restart-surviving persistence and deterministic identities.
package world

import (
	"context"
	"sync"

	ipfslog "berty.tech/go-ipfs-log"
	"berty.tech/go-orbit-db/iface"
	"berty.tech/go-orbit-db/verifhook"
)

// HookKey identifies a counter: a named point reached for a given subject.
type HookKey struct {
	Name    string
	Subject interface{}
}

// HookFn is called synchronously at a point; it may block the caller.
type HookFn func(name string, subject interface{}, args []interface{})

type hookRegistry struct {
	mu       sync.Mutex
	counters map[HookKey]int64
	byName   map[string]int64
	fns      map[int]HookFn
	nextID   int
}

var hooks = &hookRegistry{
	counters: map[HookKey]int64{},
	byName:   map[string]int64{},
	fns:      map[int]HookFn{},
}

func init() {
	verifhook.SetHandler(func(name string, subject interface{}, args ...interface{}) {
		hooks.mu.Lock()
		if comparable(subject) {
			hooks.counters[HookKey{name, subject}]++
		}
		hooks.byName[name]++
		fns := make([]HookFn, 0, len(hooks.fns))
		for _, f := range hooks.fns {
			fns = append(fns, f)
		}
		hooks.mu.Unlock()
		for _, f := range fns {
			f(name, subject, args)
		}
	})
}

func comparable(v interface{}) (ok bool) {
	defer func() {
		if recover() != nil {
			ok = false
		}
	}()
	_ = map[interface{}]struct{}{v: {}}
	return true
}

// HookCount returns how often point name was reached for subject.
func HookCount(name string, subject interface{}) int64 {
	hooks.mu.Lock()
	defer hooks.mu.Unlock()
	return hooks.counters[HookKey{name, subject}]
}

// HookTotal returns how often point name was reached for any subject.
func HookTotal(name string) int64 {
	hooks.mu.Lock()
	defer hooks.mu.Unlock()
	return hooks.byName[name]
}

// HooksLive reports whether the instrumented build is in use (points fire).
func HooksLive() bool {
	before := HookTotal("verif.selftest")
	verifhook.Point("verif.selftest", nil)
	return HookTotal("verif.selftest") == before+1
}

// AddHook registers fn for every point; the returned func removes it.
func AddHook(fn HookFn) (remove func()) {
	hooks.mu.Lock()
	id := hooks.nextID
	hooks.nextID++
	hooks.fns[id] = fn
	hooks.mu.Unlock()
	return func() {
		hooks.mu.Lock()
		delete(hooks.fns, id)
		hooks.mu.Unlock()
	}
}

// ResetHooks forgets all counters and callbacks (called between cases).
func ResetHooks() {
	hooks.mu.Lock()
	hooks.counters = map[HookKey]int64{}
	hooks.byName = map[string]int64{}
	hooks.fns = map[int]HookFn{}
	hooks.mu.Unlock()
}

// LoadMoreFrom calls the store's LoadMoreFrom (which hands the entries to the replicator itself,
// without passing the point where Sync announces a load) and announces the load to the rest
// detector the way Sync does.
func LoadMoreFrom(ctx context.Context, s iface.Store, entries []ipfslog.Entry) {
	verifhook.Point("store.sync.spawn", s.Replicator(), entries)
	s.LoadMoreFrom(ctx, uint(len(entries)), entries)
}

// LoadMoreFromAsync announces the load and runs LoadMoreFrom in its own goroutine (for callers that
// keep fetches parked).
func LoadMoreFromAsync(ctx context.Context, s iface.Store, entries []ipfslog.Entry) {
	verifhook.Point("store.sync.spawn", s.Replicator(), entries)
	go s.LoadMoreFrom(ctx, uint(len(entries)), entries)
}
