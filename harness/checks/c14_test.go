package checks

import (
	"context"
	"fmt"
	"sort"
	"strings"
	"testing"
	"unicode/utf8"

	"berty.tech/go-ipfs-log/io"
	orbitdb "berty.tech/go-orbit-db"
	"berty.tech/go-orbit-db/accesscontroller"
	"berty.tech/go-orbit-db/address"
	"berty.tech/go-orbit-db/iface"
	"berty.tech/go-orbit-db/utils"
	cbornode "github.com/ipfs/go-ipld-cbor"
	"pgregory.net/rapid"
	"verif/harness/world"
)

// C14 — addresses are deterministic, self-describing and reopen the same database.

type TupleC14 struct {
	Name string `json:"name"`
	Type string `json:"type"`
	List []int  `json:"list"` // peer indices; -1 = "*"; empty = none given (creator default)
	// Dir: the Create calls pass a Directory option that differs from the instance's own directory
	Dir bool `json:"dir,omitempty"`
	// Shape (only when no writer is given): how "no writer" is spelt - 0: no access-controller options at all,
	// 1: options with an empty access map, 2: {"write": []}, 3: {"admin": [creator]}, 4: {"read": ["*"]} (roles
	// other than "write" are not recorded by the ipfs controller); every spelling means "the creator only"
	Shape int `json:"shape,omitempty"`
}

type CaseC14 struct {
	Tuples []TupleC14 `json:"tuples"`
}

var c14Names = []string{
	"db", "DB", "a b", "données-ü", "日本", "a/b/c", "", ".", "..", "a/../b", "../x", "./x", "a/./b", "/lead", "trail/", "dou//ble", "a/..", "...",
	"x/../x", "{root0}", "{root0}/x", "/orbitdb/{root0}/x", "../{root0}/x", "y/../../{root0}/z", "../../{root0}", "a/../../{root0}/db", "orbitdb", "%2e%2e/x", "a\\..\\b", "name with spaces/and/slash",
}

// genPathName composes a name from path segments, so that every mix of leading slashes, "." and ".."
// segments, empty segments and an earlier database's root is reachable.
func genPathName() *rapid.Generator[string] {
	return rapid.Custom(func(rt *rapid.T) string {
		segs := rapid.SliceOfN(rapid.SampledFrom([]string{"..", "..", ".", "", "a", "x", "db", "{root0}", "{root0}", "orbitdb"}), 1, 6).Draw(rt, "segs")
		name := strings.Join(segs, "/")
		switch rapid.IntRange(0, 3).Draw(rt, "lead") {
		case 0:
			name = "/" + name
		case 1:
			name = "//" + name
		}
		return name
	})
}

func genC14(rt *rapid.T) CaseC14 {
	var c CaseC14
	n := rapid.IntRange(2, 4).Draw(rt, "ntuples")
	for i := 0; i < n; i++ {
		t := TupleC14{
			Type: rapid.SampledFrom([]string{"eventlog", "keyvalue", "docstore"}).Draw(rt, "type"),
		}
		if i == 0 {
			t.Name = rapid.SampledFrom([]string{"db", "first", "a/b"}).Draw(rt, "name0")
		} else {
			t.Name = rapid.OneOf(rapid.SampledFrom(c14Names), rapid.SampledFrom(c14Names), rapid.StringMatching(`[a-zA-Z0-9._/ -]{0,12}`), genPathName(), genPathName()).Draw(rt, "name")
		}
		switch rapid.IntRange(0, 6).Draw(rt, "listkind") {
		case 5:
			t.List = []int{0, 1, 0} // an id listed twice (e.g. the creator appended to a list that already names it)
		case 6:
			t.List = []int{2, 1, 2, 0, 1}
		case 0:
			t.List = []int{}
			t.Shape = rapid.IntRange(0, 4).Draw(rt, "shape")
		case 1:
			t.List = []int{-1}
		case 2:
			t.List = []int{0}
		case 3:
			t.List = []int{0, 1}
		case 4:
			t.List = []int{1, 2}
		}
		t.Dir = rapid.IntRange(0, 3).Draw(rt, "dir") == 0
		c.Tuples = append(c.Tuples, t)
	}
	return c
}

func (t TupleC14) key(creator string) string {
	l := append([]int{}, t.List...)
	sort.Ints(l)
	return fmt.Sprintf("%q|%s|%v|%s", t.Name, t.Type, l, creator)
}

func execC14(c CaseC14) *Outcome {
	ctx := context.Background()
	o := &Outcome{}
	world.ResetHooks()
	w, err := world.New(3, nil)
	if err != nil {
		return fail("harness: %v", err)
	}
	defer w.Close()
	for _, p := range w.Peers {
		if _, err := p.StartInstance(ctx); err != nil {
			return fail("harness: %v", err)
		}
	}
	no := false
	// an instance only remembers the last store opened per address: close every store ourselves
	var opened []iface.Store
	defer func() {
		for _, s := range opened {
			_ = s.Close()
		}
	}()
	acFor := func(t TupleC14) accesscontroller.ManifestParams {
		if len(t.List) == 0 {
			switch t.Shape {
			case 1:
				return &accesscontroller.CreateAccessControllerOptions{Access: map[string][]string{}}
			case 2:
				return &accesscontroller.CreateAccessControllerOptions{Access: map[string][]string{"write": {}}}
			case 3:
				return &accesscontroller.CreateAccessControllerOptions{Access: map[string][]string{"admin": w.WriteList([]int{0})}}
			case 4:
				return &accesscontroller.CreateAccessControllerOptions{Access: map[string][]string{"read": {"*"}}}
			}
			return nil
		}
		return &accesscontroller.CreateAccessControllerOptions{Access: map[string][]string{"write": w.WriteList(t.List)}}
	}
	otherDir := "/verif-disk-elsewhere"
	dirFor := func(t TupleC14) *string {
		if t.Dir {
			return &otherDir
		}
		return nil
	}
	sharedOpts := &orbitdb.CreateDBOptions{Replicate: &no}
	type made struct {
		t    TupleC14
		name string
		addr string
		key  string
	}
	var all []made
	roots := []string{}
	for ti, t := range c.Tuples {
		name := t.Name
		if strings.Contains(name, "{root0}") {
			if len(roots) == 0 {
				continue
			}
			name = strings.ReplaceAll(name, "{root0}", roots[0])
		}
		special := strings.Contains(t.Name, "{root0}") || hasDotSegment(name)
		a := w.Peers[0].DB
		opts := func() *orbitdb.DetermineAddressOptions {
			return &orbitdb.DetermineAddressOptions{AccessController: acFor(t)}
		}
		addrA, errA := a.DetermineAddress(ctx, name, t.Type, opts())
		addrA2, errA2 := a.DetermineAddress(ctx, name, t.Type, opts())
		if (errA == nil) != (errA2 == nil) {
			return fail("DetermineAddress(%q) accepted once and refused once on the same peer", name)
		}
		if len(t.List) > 0 {
			addrB, errB := w.Peers[1].DB.DetermineAddress(ctx, name, t.Type, opts())
			if (errA == nil) != (errB == nil) {
				return fail("DetermineAddress(%q, %s, %v) is accepted on one peer and refused on another (%v / %v)", name, t.Type, t.List, errA, errB)
			}
			if errA == nil && addrA.String() != addrB.String() {
				return fail("DetermineAddress(%q, %s, %v) gives %s on one peer and %s on another", name, t.Type, t.List, addrA, addrB)
			}
		}
		if errA != nil {
			o.Labels = append(o.Labels, "name-refused")
			if special {
				o.Labels = append(o.Labels, "special-name-refused")
			}
			continue
		}
		if addrA.String() != addrA2.String() {
			return fail("DetermineAddress(%q) gives two different addresses on the same peer", name)
		}
		// printed form parses back
		parsed, err := address.Parse(addrA.String())
		if err != nil {
			return fail("the address %q of name %q does not parse: %v", addrA, name, err)
		}
		if !parsed.GetRoot().Equals(addrA.GetRoot()) || parsed.GetPath() != addrA.GetPath() || parsed.String() != addrA.String() {
			return fail("the address %q of name %q parses to root %s path %q (printed %q)", addrA, name, parsed.GetRoot(), parsed.GetPath(), parsed)
		}
		// the root is the manifest of exactly this database
		node, err := io.ReadCBOR(ctx, w.Peers[0].API, addrA.GetRoot())
		if err != nil {
			return fail("the root of address %q (name %q) cannot be read as a manifest: %v", addrA, name, err)
		}
		man := &utils.Manifest{}
		if err := cbornode.DecodeInto(node.RawData(), man); err != nil {
			return fail("the root of address %q (name %q) is not a manifest: %v", addrA, name, err)
		}
		if man.Name != name || man.Type != t.Type {
			return fail("DetermineAddress(%q, %s) returned %s whose manifest records name %q and type %q: the address belongs to another database", name, t.Type, addrA, man.Name, man.Type)
		}
		creator := ""
		wantList := w.WriteList(t.List)
		if len(t.List) == 0 {
			creator = w.Peers[0].DB.Identity().ID
			wantList = []string{creator}
		}
		// the inputs are name, type and the effective write list (with none given, the creator's id)
		eff := append([]string{}, wantList...)
		sort.Strings(eff)
		m := made{t: t, name: name, addr: addrA.String(), key: fmt.Sprintf("%q|%s|%v", name, t.Type, eff)}
		for _, prev := range all {
			if prev.key == m.key && prev.addr != m.addr {
				return fail("the same inputs %s gave two addresses %s and %s", m.key, prev.addr, m.addr)
			}
			if prev.key != m.key && prev.addr == m.addr {
				return fail("different inputs %s and %s gave the same address %s", prev.key, m.key, m.addr)
			}
		}
		dup := false
		for _, prev := range all {
			if prev.key == m.key {
				dup = true
			}
		}
		all = append(all, m)
		if ti == 0 || len(roots) == 0 {
			roots = append(roots, addrA.GetRoot().String())
		}
		if dup {
			continue
		}

		// create, re-create, open elsewhere
		s, err := a.Create(ctx, name, t.Type, &orbitdb.CreateDBOptions{Directory: dirFor(t), AccessController: acFor(t), Replicate: &no})
		if err != nil {
			// a refusal by Create is acceptable for any name
			o.Labels = append(o.Labels, "create-refused")
			continue
		}
		opened = append(opened, s)
		if s.Address().String() != addrA.String() {
			return fail("Create(%q) returned a store at %s, DetermineAddress said %s", name, s.Address(), addrA)
		}
		if s.Type() != t.Type {
			return fail("Create(%q, %s) returned a %s store", name, t.Type, s.Type())
		}
		if sx, err := a.Create(ctx, name, t.Type, &orbitdb.CreateDBOptions{Directory: dirFor(t), AccessController: acFor(t), Replicate: &no}); err == nil {
			opened = append(opened, sx)
			return fail("Create(%q) over an existing local database was accepted without overwrite", name)
		}
		yes := true
		if s2, err := a.Create(ctx, name, t.Type, &orbitdb.CreateDBOptions{Directory: dirFor(t), AccessController: acFor(t), Replicate: &no, Overwrite: &yes}); err != nil {
			return fail("Create(%q) with overwrite was refused: %v", name, err)
		} else if opened = append(opened, s2); s2.Address().String() != addrA.String() {
			return fail("Create(%q) with overwrite returned another address", name)
		}
		// callers commonly reuse one options value for several opens: peer 1 does
		sb, err := w.Peers[1].DB.Open(ctx, addrA.String(), sharedOpts)
		if err != nil {
			return fail("Open(%s) on another peer failed: %v", addrA, err)
		}
		opened = append(opened, sb)
		if sb.Type() != t.Type {
			return fail("Open(%s) on another peer gives a %s store, the database was created as %s", addrA, sb.Type(), t.Type)
		}
		got, err := sb.AccessController().GetAuthorizedByRole("write")
		if err != nil {
			return fail("GetAuthorizedByRole failed: %v", err)
		}
		g := append([]string{}, got...)
		wl := append([]string{}, wantList...)
		sort.Strings(g)
		sort.Strings(wl)
		if !eqStrings(g, wl) {
			return fail("Open(%s) on another peer shows write list %v, the database was created with %v", addrA, g, wl)
		}
		yesLocal := true
		if sc, err := w.Peers[2].DB.Open(ctx, addrA.String(), &orbitdb.CreateDBOptions{Replicate: &no, LocalOnly: &yesLocal}); err == nil {
			opened = append(opened, sc)
			return fail("a local-only Open of %s on a peer that never saw the database was accepted", addrA)
		}
		// ... whether or not the caller also asks for the database to be created when missing (the typed
		// helpers always do): an address names an existing database, nothing can be created for it
		yesCreate := true
		if sc, err := w.Peers[2].DB.Open(ctx, addrA.String(), &orbitdb.CreateDBOptions{Replicate: &no, LocalOnly: &yesLocal, Create: &yesCreate, StoreType: &t.Type}); err == nil {
			opened = append(opened, sc)
			return fail("a local-only Open (with create-if-missing) of %s on a peer that never saw the database was accepted", addrA)
		}
		if sl, err := a.Open(ctx, addrA.String(), &orbitdb.CreateDBOptions{Replicate: &no, LocalOnly: &yesLocal}); err != nil {
			return fail("a local-only Open of %s on the peer that created it was refused: %v", addrA, err)
		} else {
			opened = append(opened, sl)
		}
		// the typed helpers (Log / KeyValue / Docs): the matching one opens the database, another one is refused
		typed := func(db orbitdb.OrbitDB, typ, target string, opt *orbitdb.CreateDBOptions) (iface.Store, error) {
			switch typ {
			case "eventlog":
				st, err := db.Log(ctx, target, opt)
				if err != nil {
					return nil, err
				}
				return st, nil
			case "keyvalue":
				st, err := db.KeyValue(ctx, target, opt)
				if err != nil {
					return nil, err
				}
				return st, nil
			default:
				st, err := db.Docs(ctx, target, opt)
				if err != nil {
					return nil, err
				}
				return st, nil
			}
		}
		if st, err := typed(w.Peers[2].DB, t.Type, addrA.String(), &orbitdb.CreateDBOptions{Replicate: &no, LocalOnly: &yesLocal}); err == nil {
			opened = append(opened, st)
			return fail("the local-only %s helper opened %s on a peer that never saw the database", t.Type, addrA)
		}
		other := map[string]string{"eventlog": "keyvalue", "keyvalue": "docstore", "docstore": "eventlog"}[t.Type]
		if st, err := typed(w.Peers[2].DB, t.Type, addrA.String(), &orbitdb.CreateDBOptions{Replicate: &no}); err != nil {
			return fail("the %s helper refused to open %s, a %s database: %v", t.Type, addrA, t.Type, err)
		} else {
			opened = append(opened, st)
			if st.Type() != t.Type || st.Address().String() != addrA.String() {
				return fail("the %s helper on %s returned a %s store at %s", t.Type, addrA, st.Type(), st.Address())
			}
		}
		if st, err := typed(w.Peers[2].DB, other, addrA.String(), &orbitdb.CreateDBOptions{Replicate: &no}); err == nil {
			opened = append(opened, st)
			return fail("the %s helper opened %s, which was created as a %s database (got a %s store)", other, addrA, t.Type, st.Type())
		}
		// a helper given a name creates the database at the address DetermineAddress computes for it
		hname := name + "-h"
		if address.IsValid(hname) != nil {
			if want, err := a.DetermineAddress(ctx, hname, t.Type, opts()); err == nil {
				st, err := typed(a, t.Type, hname, &orbitdb.CreateDBOptions{AccessController: acFor(t), Replicate: &no})
				if err != nil {
					return fail("the %s helper refused to create %q although DetermineAddress accepts the name: %v", t.Type, hname, err)
				}
				opened = append(opened, st)
				o.Labels = append(o.Labels, "created-by-typed-helper")
				if st.Address().String() != want.String() || st.Type() != t.Type {
					return fail("the %s helper created %q at %s (%s), DetermineAddress said %s", t.Type, hname, st.Address(), st.Type(), want)
				}
			}
		}
		if special {
			o.NonTrivial = true
			o.Labels = append(o.Labels, "special-name-accepted")
		}
		if len(t.List) == 0 {
			o.Labels = append(o.Labels, "default-write-list")
		}
		if t.Dir {
			o.Labels = append(o.Labels, "created-with-directory-option")
		}
	}
	_ = iface.CreateDBOptions{}
	return o
}

func hasDotSegment(name string) bool {
	for _, seg := range strings.Split(name, "/") {
		if seg == "." || seg == ".." {
			return true
		}
	}
	return false
}

func TestC14(t *testing.T) { runCheck(t, "C14", genC14, execC14) }

// FuzzC14Name: coverage-guided database names (thorough tier); "{root0}" in the name is replaced by the
// address root of a first, ordinary database of the same case.
func FuzzC14Name(f *testing.F) {
	for _, n := range c14Names {
		f.Add(n, uint8(0))
	}
	f.Add("/../{root0}/x", uint8(1))
	f.Add("a/b/../../../{root0}/y", uint8(2))
	f.Fuzz(func(t *testing.T, name string, sel uint8) {
		if !utf8.ValidString(name) || len(name) > 200 {
			t.Skip()
		}
		types := []string{"eventlog", "keyvalue", "docstore"}
		lists := [][]int{{}, {-1}, {0}, {0, 1}, {1, 2}, {0, 1, 0}}
		c := CaseC14{Tuples: []TupleC14{
			{Name: "db", Type: "eventlog", List: []int{0, 1}},
			{Name: name, Type: types[int(sel)%3], List: lists[int(sel/3)%6]},
		}}
		fuzzOne(t, "C14", "TestC14", c, execC14)
	})
}
