package checks

import (
	ipfslog "berty.tech/go-ipfs-log"
	"bytes"
	"context"
	"encoding/json"
	"fmt"
	"sort"
	"testing"
	"time"

	orbitdb "berty.tech/go-orbit-db"
	"berty.tech/go-orbit-db/iface"
	"berty.tech/go-orbit-db/stores/basestore"
	cid "github.com/ipfs/go-cid"
	"pgregory.net/rapid"
	"verif/harness/model"
	"verif/harness/world"
)

// C13 — a saved snapshot reloads to exactly the saved database, or saving fails.

type StepC13 struct {
	Kind string `json:"kind"` // local | remote | merge
	W    int    `json:"w,omitempty"`
	N    int    `json:"n,omitempty"`
	Size int    `json:"size,omitempty"`
	Key  int    `json:"key,omitempty"`
}

type CaseC13 struct {
	Type    string    `json:"type"`
	Others  int       `json:"others"`
	Steps   []StepC13 `json:"steps"`
	Pending bool      `json:"pending"` // a replication is in progress (fetches parked) while saving
	// MidWrite: a goroutine keeps writing small local entries while the snapshot is being saved (the log grows
	// under SaveSnapshot); the saved database is then any state between the one before and the one after
	MidWrite bool `json:"mid_write,omitempty"`
	// PreHeld > 0: the store that loads the snapshot is not empty - it has already been handed one of the saved
	// heads (number PreHeld-1 in the saved order, modulo their count; from 100 on: all but that one) by Sync
	PreHeld int `json:"pre_held,omitempty"`
	// EarlySave > 0: a snapshot is also saved after step EarlySave-1 of the history (its result is not used:
	// the snapshot that is checked is the one saved at the end)
	EarlySave int `json:"early_save,omitempty"`
}

func genSizeC13(rt *rapid.T) int {
	return rapid.OneOf(
		rapid.IntRange(0, 64),
		rapid.IntRange(0, 64),
		rapid.IntRange(0, 64),
		rapid.IntRange(65, 4000),
		rapid.IntRange(36300, 37100), // entry JSON around the 16-bit length boundary
		rapid.IntRange(20000, 60000),
		rapid.IntRange(30000, 36400), // large entries that still fit: several of them exceed one UnixFS chunk (256 KiB)
		rapid.IntRange(30000, 36400),
		rapid.IntRange(100000, 300000),
	).Draw(rt, "size")
}

func genC13(rt *rapid.T) CaseC13 {
	c := CaseC13{
		Type:   rapid.SampledFrom([]string{"eventlog", "keyvalue", "docstore"}).Draw(rt, "type"),
		Others: rapid.IntRange(0, 2).Draw(rt, "others"),
	}
	n := rapid.IntRange(0, 7).Draw(rt, "nsteps")
	for i := 0; i < n; i++ {
		kinds := []string{"local", "local"}
		if c.Others > 0 {
			kinds = append(kinds, "remote", "remote", "merge", "merge")
		}
		st := StepC13{Kind: rapid.SampledFrom(kinds).Draw(rt, "kind")}
		switch st.Kind {
		case "local":
			st.N = rapid.IntRange(1, 3).Draw(rt, "n")
			st.Size = genSizeC13(rt)
			st.Key = rapid.IntRange(0, 3).Draw(rt, "key")
		case "remote":
			st.W = rapid.IntRange(1, c.Others).Draw(rt, "w")
			st.N = rapid.IntRange(1, 3).Draw(rt, "n")
			st.Size = genSizeC13(rt)
			st.Key = rapid.IntRange(0, 3).Draw(rt, "key")
		case "merge":
			st.W = rapid.IntRange(1, c.Others).Draw(rt, "w")
		}
		c.Steps = append(c.Steps, st)
	}
	if c.Others > 0 {
		c.Pending = rapid.Bool().Draw(rt, "pending")
	}
	if n > 0 && rapid.IntRange(0, 2).Draw(rt, "early") == 0 {
		c.EarlySave = rapid.IntRange(1, n).Draw(rt, "earlySave")
		if c.Others > 0 && rapid.Bool().Draw(rt, "quietAfter") {
			// nothing is written locally between the two saves: only other writers' entries arrive
			for i := c.EarlySave; i < len(c.Steps); i++ {
				if c.Steps[i].Kind == "local" {
					c.Steps[i].Kind = "remote"
					c.Steps[i].W = 1 + i%c.Others
				}
			}
			c.Steps = append(c.Steps, StepC13{Kind: "merge", W: 1}, StepC13{Kind: "merge", W: c.Others})
		}
	}
	c.MidWrite = rapid.IntRange(0, 2).Draw(rt, "midWrite") == 0
	if !c.MidWrite && !c.Pending {
		c.PreHeld = rapid.SampledFrom([]int{0, 0, 1, 2, 3, 101, 102}).Draw(rt, "preHeld")
		if c.PreHeld > 0 && c.Others > 0 {
			// the snapshot should have several heads: other writers' concurrent branches are merged last
			for w := 1; w <= c.Others; w++ {
				c.Steps = append(c.Steps, StepC13{Kind: "remote", W: w, N: rapid.IntRange(1, 2).Draw(rt, "tailn"), Size: 8, Key: w}, StepC13{Kind: "merge", W: w})
			}
		}
	}
	return c
}

// writeAny issues one write of the store's type with a payload of size bytes.
func writeAny(ctx context.Context, s iface.Store, typ string, key int, size int, tag int) (model.Op, error) {
	val := bytes.Repeat([]byte{byte('a' + tag%26)}, size)
	k := fmt.Sprintf("k%d", key)
	switch typ {
	case "eventlog":
		_, err := s.(iface.EventLogStore).Add(ctx, val)
		return model.Op{Kind: "ADD", Val: val}, err
	case "keyvalue":
		_, err := s.(iface.KeyValueStore).Put(ctx, k, val)
		return model.Op{Kind: "PUT", Key: k, Val: val}, err
	default:
		d := map[string]interface{}{"_id": k, "data": string(val), "tag": tag}
		_, err := s.(iface.DocumentStore).Put(ctx, d)
		return model.Op{Kind: "PUT", Key: k, Val: docBytes(d)}, err
	}
}

// viewOf renders the visible state of a store as a canonical string list.
func viewOf(s iface.Store, typ string) ([]string, error) {
	ctx := context.Background()
	switch typ {
	case "eventlog":
		m1 := -1
		ops, err := s.(iface.EventLogStore).List(ctx, &iface.StreamOptions{Amount: &m1})
		if err != nil {
			return nil, err
		}
		out := make([]string, len(ops))
		for i, o := range ops {
			out[i] = fmt.Sprintf("%s:%x", short(o.GetEntry().GetHash().String()), sha(o.GetValue()))
		}
		return out, nil
	case "keyvalue":
		all := s.(iface.KeyValueStore).All()
		var out []string
		for k, v := range all {
			out = append(out, fmt.Sprintf("%s=%x", k, sha(v)))
		}
		sort.Strings(out)
		return out, nil
	default:
		docs, err := s.(iface.DocumentStore).Query(ctx, func(interface{}) (bool, error) { return true, nil })
		if err != nil {
			return nil, err
		}
		var out []string
		for _, d := range docs {
			b, _ := json.Marshal(d)
			out = append(out, fmt.Sprintf("%x", sha(b)))
		}
		sort.Strings(out)
		return out, nil
	}
}

func execC13(c CaseC13) (out *Outcome) {
	ctx := context.Background()
	o := &Outcome{}
	world.ResetHooks()
	no := false
	cl, err := world.NewCluster(ctx, world.ClusterOpts{N: 1 + c.Others, Type: c.Type, Replicate: &no})
	if err != nil {
		return fail("harness: cluster: %v", err)
	}
	defer cl.Close()
	tr := newTracker()
	cnt := 0
	big, replicated := false, false
	add := func(w int, st StepC13) error {
		s := cl.Stores[w]
		for i := 0; i < st.N; i++ {
			before := hashSetOf(s)
			op, err := writeAny(ctx, s, c.Type, st.Key, st.Size, cnt)
			cnt++
			if err != nil {
				return fmt.Errorf("write failed: %v", err)
			}
			if err := tr.noteWrites(s, w, before, []model.Op{op}); err != nil {
				return err
			}
		}
		return nil
	}
	for i, st := range c.Steps {
		switch st.Kind {
		case "local":
			if err := add(0, st); err != nil {
				return fail("step %d: %v", i, err)
			}
		case "remote":
			if err := add(1+(st.W-1)%c.Others, st); err != nil {
				return fail("step %d: %v", i, err)
			}
		case "merge":
			src := 1 + (st.W-1)%c.Others
			if cl.Stores[src].OpLog().Len() == 0 {
				continue
			}
			if err := syncFrom(cl, 0, src); err != nil {
				if err == world.ErrInconclusive {
					o.Inconclusive = true
					return o
				}
				return fail("step %d: merge: %v", i, err)
			}
			replicated = true
		}
		if c.EarlySave == i+1 && cl.Stores[0].OpLog().Len() > 0 {
			if _, err := basestore.SaveSnapshot(ctx, cl.Stores[0]); err == nil {
				o.Labels = append(o.Labels, "saved-twice")
			}
		}
	}
	s0 := cl.Stores[0]
	p0 := cl.W.Peers[0]
	pendingStarted := false
	if c.Pending {
		// start a replication whose fetches stay parked while the snapshot is taken
		for j := 1; j <= c.Others; j++ {
			src := cl.Stores[j]
			have := hashSetOf(s0)
			missing := false
			for _, h := range world.HashSet(src) {
				if !have[h] {
					missing = true
				}
			}
			if !missing {
				continue
			}
			heads, err := cloneHeads(world.Heads(src))
			if err != nil {
				return fail("harness: %v", err)
			}
			p0.SetGate(true)
			if err := s0.Sync(ctx, heads); err != nil {
				p0.SetGate(false)
				return fail("Sync returned %v", err)
			}
			if !world.WaitFor(func() bool { return len(p0.Parked()) > 0 }, 10*time.Second) {
				p0.SetGate(false)
				o.Inconclusive = true
				return o
			}
			pendingStarted = true
			break
		}
	}
	fileSize := 0
	for _, e := range s0.OpLog().GetEntries().Slice() {
		b, _ := json.Marshal(e)
		fileSize += len(b) + 2
		if len(b) > 60000 {
			big = true
		}
	}
	savedHeadEntries, _ := cloneHeads(world.Heads(s0))
	savedSet := world.HashSet(s0)
	savedOrder := world.Hashes(s0)
	savedHeads := world.HeadHashes(s0)
	savedView, err := viewOf(s0, c.Type)
	if err != nil {
		return fail("view before save: %v", err)
	}
	queued := world.Stats(s0).Queued + world.Stats(s0).Fetching + world.Stats(s0).Added

	// the concurrent writer (its entries are small: the log stays saveable)
	stopWriter := make(chan struct{})
	writerDone := make(chan error, 1)
	midWrites := 0
	if c.MidWrite {
		for i := 0; i < 20; i++ { // a log long enough for the save to take a while
			before := hashSetOf(s0)
			op, err := writeAny(ctx, s0, c.Type, i%4, 8, cnt)
			cnt++
			if err != nil {
				return fail("harness: write: %v", err)
			}
			if err := tr.noteWrites(s0, 0, before, []model.Op{op}); err != nil {
				return fail("harness: %v", err)
			}
		}
		savedSet = world.HashSet(s0)
		go func() {
			for i := 0; i < 400; i++ {
				select {
				case <-stopWriter:
					writerDone <- nil
					return
				default:
				}
				before := hashSetOf(s0)
				op, err := writeAny(ctx, s0, c.Type, i%4, 8, 100000+i)
				if err != nil {
					writerDone <- fmt.Errorf("a write during SaveSnapshot failed: %v", err)
					return
				}
				if err := tr.noteWrites(s0, 0, before, []model.Op{op}); err != nil {
					writerDone <- err
					return
				}
				midWrites++
			}
			writerDone <- nil
		}()
		time.Sleep(200 * time.Microsecond)
	} else {
		writerDone <- nil
	}
	var snap cid.Cid
	var saveErr error
	func() {
		defer func() {
			if r := recover(); r != nil {
				out = fail("SaveSnapshot panicked: %v (log of %d entries, %d replicated, replication in progress: %v)", r, len(savedSet), len(savedSet)-countAuthor(tr, savedSet, 0), pendingStarted)
			}
		}()
		snap, saveErr = basestore.SaveSnapshot(ctx, s0)
	}()
	close(stopWriter)
	if werr := <-writerDone; werr != nil && out == nil {
		p0.SetGate(false)
		return fail("%v", werr)
	}
	afterSet := map[string]bool{}
	for _, h := range world.HashSet(s0) {
		afterSet[h] = true
	}
	p0.SetGate(false)
	if out != nil {
		return out
	}
	if c.MidWrite {
		o.Labels = append(o.Labels, "log-grew-during-save")
	}
	o.NonTrivial = replicated || big || pendingStarted
	if replicated {
		o.Labels = append(o.Labels, "replicated-entries")
	}
	if big {
		o.Labels = append(o.Labels, "entry-json>60000")
	}
	if pendingStarted {
		o.Labels = append(o.Labels, fmt.Sprintf("replication-in-progress"))
		_ = queued
	}
	if len(savedSet) == 0 {
		o.Labels = append(o.Labels, "empty-log")
	}
	if saveErr != nil {
		o.Labels = append(o.Labels, "save-refused")
		return o
	}
	_ = snap
	o.Labels = append(o.Labels, "save-ok")
	if fileSize > 256*1024 {
		o.Labels = append(o.Labels, "save-ok,file>256KiB")
	}

	// fresh instance on the same disk; nothing else is reachable any more
	p0.StopInstance()
	for j := 1; j <= c.Others; j++ {
		cl.W.Cut(0, j)
	}
	p0.Offline = true
	db, err := p0.StartInstance(ctx)
	if err != nil {
		return fail("harness: restart: %v", err)
	}
	s1, err := db.Open(ctx, cl.Addr, &orbitdb.CreateDBOptions{Replicate: &no})
	if err != nil {
		return fail("harness: reopen: %v", err)
	}
	if c.PreHeld > 0 && len(savedHeadEntries) > 0 {
		var pre []ipfslog.Entry
		k := (c.PreHeld%100 - 1 + len(savedHeadEntries)) % len(savedHeadEntries)
		if c.PreHeld >= 100 {
			for i, h := range savedHeadEntries {
				if i != k {
					pre = append(pre, h)
				}
			}
		} else {
			pre = []ipfslog.Entry{savedHeadEntries[k]}
		}
		if len(pre) > 0 {
			if err := s1.Sync(ctx, pre); err != nil {
				return fail("harness: Sync of saved heads into the fresh store: %v", err)
			}
			cl.W.WaitQuiescent([]iface.Store{s1}, nil, 3*time.Second)
			o.Labels = append(o.Labels, fmt.Sprintf("loaded-into-a-store-holding-%d-of-%d-saved-heads", len(pre), len(savedHeadEntries)))
		}
	}
	var loadErr error
	func() {
		defer func() {
			if r := recover(); r != nil {
				out = fail("LoadFromSnapshot panicked: %v", r)
			}
		}()
		lctx, cancel := context.WithTimeout(ctx, 90*time.Second)
		defer cancel()
		loadErr = s1.LoadFromSnapshot(lctx)
	}()
	if out != nil {
		return out
	}
	if loadErr != nil {
		return fail("SaveSnapshot succeeded on a %s log of %d entries (largest entry JSON > 60000: %v) but LoadFromSnapshot failed: %v", c.Type, len(savedSet), big, loadErr)
	}
	if pendingStarted {
		// queued hashes may legitimately be fetched again after loading: wait for rest, then compare the saved part
		cl.W.WaitQuiescent([]iface.Store{s1}, nil, 5*time.Second)
	}
	gotSet := world.HashSet(s1)
	have := map[string]bool{}
	for _, h := range gotSet {
		have[h] = true
	}
	for _, h := range savedSet {
		if !have[h] {
			return fail("entry %s was in the log when the snapshot was saved but is missing after LoadFromSnapshot (%d saved, %d loaded)", short(h), len(savedSet), len(gotSet))
		}
	}
	if c.MidWrite {
		// any state between the one before the save and the one after it, and a consistent one
		for _, h := range gotSet {
			if !afterSet[h] && !pendingStarted {
				return fail("LoadFromSnapshot produced entry %s which was never in the saved database", short(h))
			}
		}
		if _, err := tr.checkOrder(s1); err != nil {
			return fail("after LoadFromSnapshot of a snapshot saved while the log grew: %v", err)
		}
		got, err := viewOf(s1, c.Type)
		if err != nil {
			return fail("view after load: %v", err)
		}
		want, err := replayOfLog(s1, c.Type)
		if err != nil {
			return fail("harness: %v", err)
		}
		if !eqStrings(got, want) {
			return fail("after LoadFromSnapshot (snapshot saved while the log grew) the view %v is not the replay of the %d loaded entries %v", got, len(gotSet), want)
		}
		return o
	}
	if !pendingStarted || len(gotSet) == len(savedSet) {
		if len(gotSet) != len(savedSet) {
			return fail("LoadFromSnapshot produced %d entries, %d were saved", len(gotSet), len(savedSet))
		}
		if got := world.Hashes(s1); !eqStrings(got, savedOrder) {
			return fail("Values() order after LoadFromSnapshot differs from the saved log")
		}
		if got := world.HeadHashes(s1); !eqStrings(got, savedHeads) {
			return fail("heads after LoadFromSnapshot %v differ from the saved heads %v", shortAll(got), shortAll(savedHeads))
		}
		v, err := viewOf(s1, c.Type)
		if err != nil {
			return fail("view after load: %v", err)
		}
		if !eqStrings(v, savedView) {
			return fail("visible state after LoadFromSnapshot differs from the state at save time: %v vs %v", v, savedView)
		}
	} else {
		if !isSubsequence(savedOrder, world.Hashes(s1)) {
			return fail("saved entries are listed in a different relative order after LoadFromSnapshot")
		}
	}
	return o
}

func countAuthor(tr *tracker, set []string, w int) int {
	n := 0
	for _, h := range set {
		if tr.author[h] == w {
			n++
		}
	}
	return n
}

func TestC13(t *testing.T) { runCheck(t, "C13", genC13, execC13) }
