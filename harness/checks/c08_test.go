package checks

import (
	orbitdb "berty.tech/go-orbit-db"
	"context"
	"fmt"
	"math"
	"testing"

	"berty.tech/go-orbit-db/iface"
	cid "github.com/ipfs/go-cid"
	"pgregory.net/rapid"
	"verif/harness/model"
	"verif/harness/world"
)

// C08 — event log: append-only, stably ordered, exact windows.

type LogOp struct {
	Kind string `json:"kind"` // add | merge | observe
	W    int    `json:"w"`
	From int    `json:"from,omitempty"`
	Size int    `json:"size,omitempty"`
}

type CaseC08 struct {
	Writers   int     `json:"writers"`
	Ops       []LogOp `json:"ops"`
	Positions []int   `json:"positions"`
	Amounts   []int   `json:"amounts"`
}

func genC08(rt *rapid.T) CaseC08 {
	c := CaseC08{Writers: rapid.IntRange(2, 3).Draw(rt, "writers")}
	maxOps := 18
	if thorough() {
		maxOps = 36
	}
	n := rapid.IntRange(2, maxOps).Draw(rt, "nops")
	for i := 0; i < n; i++ {
		op := LogOp{Kind: rapid.SampledFrom([]string{"add", "add", "add", "add", "merge", "merge", "observe", "observe", "observe", "reopen"}).Draw(rt, "kind"),
			W: rapid.IntRange(0, c.Writers-1).Draw(rt, "w")}
		switch op.Kind {
		case "add":
			op.Size = rapid.SampledFrom([]int{1, 1, 2, 10, 200}).Draw(rt, "size")
		case "merge":
			op.From = rapid.IntRange(0, c.Writers-1).Draw(rt, "from")
		}
		c.Ops = append(c.Ops, op)
	}
	c.Positions = rapid.SliceOfN(rapid.IntRange(0, 1000), 3, 3).Draw(rt, "positions")
	c.Amounts = rapid.SliceOfN(rapid.IntRange(-3, 60), 2, 2).Draw(rt, "amounts")
	return c
}

func listHashes(ev iface.EventLogStore, opts *iface.StreamOptions) ([]string, error) {
	ops, err := ev.List(context.Background(), opts)
	if err != nil {
		return nil, err
	}
	out := make([]string, len(ops))
	for i, o := range ops {
		out[i] = o.GetEntry().GetHash().String()
	}
	return out, nil
}

func isSubsequence(a, b []string) bool {
	j := 0
	for _, x := range b {
		if j < len(a) && a[j] == x {
			j++
		}
	}
	return j == len(a)
}

func execC08(c CaseC08) *Outcome {
	ctx := context.Background()
	o := &Outcome{}
	world.ResetHooks()
	no := false
	var writers []int
	for i := 0; i < c.Writers; i++ {
		writers = append(writers, i)
	}
	obs := c.Writers
	cl, err := world.NewCluster(ctx, world.ClusterOpts{N: c.Writers + 1, Type: "eventlog", Writers: writers, Replicate: &no})
	if err != nil {
		return fail("harness: cluster: %v", err)
	}
	defer cl.Close()
	tr := newTracker()
	minus1 := -1
	var prev []string
	insertedBetween := false
	counter := 0
	// windows and Get by address over the current listing of a replica (full: every amount; otherwise a few) -
	// asked after every step as well as at the end, since a query may leave something behind that a later merge
	// makes stale
	cutBoth := false
	checkWindows := func(ri int, full bool, when string) *Outcome {
		ev := cl.Stores[ri].(iface.EventLogStore)
		L, err := listHashes(ev, &iface.StreamOptions{Amount: &minus1})
		if err != nil {
			return fail("List failed: %v", err)
		}
		n := len(L)
		// no options at all: last entry
		got, err := listHashes(ev, nil)
		if err != nil {
			return fail("List(nil) failed: %v", err)
		}
		if exp := pick(L, model.Window(n, "", 0, false, 0)); !eqStrings(got, exp) {
			return fail(when+": replica %d: List(nil) = %v, expected %v", ri, shortAll(got), shortAll(exp))
		}
		if n == 0 {
			return nil
		}
		var positions []int
		if n <= 6 {
			for i := 0; i < n; i++ {
				positions = append(positions, i)
			}
		} else {
			positions = []int{0, n - 1}
			for _, p := range c.Positions {
				positions = append(positions, p%n)
			}
		}
		type amt struct {
			set bool
			v   int
		}
		amounts := []amt{{false, 0}, {true, 1}, {true, 2}, {true, -1}}
		if full {
			amounts = []amt{{false, 0}, {true, 0}, {true, 1}, {true, 2}, {true, n - 1}, {true, n}, {true, n + 3}, {true, -1}, {true, -7},
				{true, math.MaxInt32}, {true, math.MaxInt - 1}, {true, math.MaxInt}, {true, math.MinInt}} // "no limit" idioms
			for _, a := range c.Amounts {
				amounts = append(amounts, amt{true, a})
			}
		}
		for _, bound := range []string{"", "gt", "gte", "lt", "lte"} {
			for _, pos := range positions {
				if bound == "" && pos != positions[0] {
					continue
				}
				for _, a := range amounts {
					opts := &iface.StreamOptions{}
					if a.set {
						v := a.v
						opts.Amount = &v
					}
					h, err := cid.Decode(L[pos])
					if err != nil {
						return fail("harness: %v", err)
					}
					switch bound {
					case "gt":
						opts.GT = &h
					case "gte":
						opts.GTE = &h
					case "lt":
						opts.LT = &h
					case "lte":
						opts.LTE = &h
					}
					got, err := listHashes(ev, opts)
					if err != nil {
						return fail("List failed: %v", err)
					}
					idx := model.Window(n, bound, pos, a.set, a.v)
					exp := pick(L, idx)
					if !eqStrings(got, exp) {
						return fail(when+": replica %d, log of %d: List(%s@%d, amount=%s) returned positions %v, the window is %v",
							ri, n, bound, pos, amtStr(a.set, a.v), positionsOf(L, got), idx)
					}
					if bound != "" && a.set && a.v > 0 && len(idx) == a.v && len(idx) < n-1 && pos > 0 && pos < n-1 {
						cutBoth = true
					}
				}
			}
		}
		for i, hs := range L {
			h, _ := cid.Decode(hs)
			op, err := ev.Get(ctx, h)
			if err != nil {
				return fail(when+": replica %d: Get(%s) failed: %v", ri, short(hs), err)
			}
			if op.GetEntry().GetHash().String() != hs {
				return fail(when+": replica %d: Get(entry %d) returned entry %s", ri, i, short(op.GetEntry().GetHash().String()))
			}
			if string(op.GetValue()) != string(tr.ops[hs].Val) {
				return fail(when+": replica %d: Get(entry %d) returned a different payload", ri, i)
			}
		}
		return nil
	}
	for step, op := range c.Ops {
		w := op.W % c.Writers
		switch op.Kind {
		case "add":
			s := cl.Stores[w]
			before := hashSetOf(s)
			payload := make([]byte, op.Size)
			for i := range payload {
				payload[i] = byte('a' + (counter+i)%26)
			}
			counter++
			res, err := s.(iface.EventLogStore).Add(ctx, payload)
			if err != nil {
				return fail("step %d: Add failed: %v", step, err)
			}
			if err := tr.noteWrites(s, w, before, []model.Op{{Kind: "ADD", Val: payload}}); err != nil {
				return fail("step %d: %v", step, err)
			}
			if string(res.GetValue()) != string(payload) {
				return fail("step %d: Add returned an operation with a different value", step)
			}
		case "reopen":
			// a writer (even w) or the observer (odd w) restarts and reloads: its listing must come back unchanged
			who := w
			if op.W%2 == 1 {
				who = obs
			}
			if err := cl.ReopenWith(ctx, who, -1, &orbitdb.CreateDBOptions{Replicate: &no}); err != nil {
				return fail("step %d: replica %d cannot restart and load: %v", step, who, err)
			}
			o.Labels = append(o.Labels, "reopen")
		case "merge":
			src := op.From % c.Writers
			if src == w {
				continue
			}
			if err := syncFrom(cl, w, src); err != nil {
				if err == world.ErrInconclusive {
					o.Inconclusive = true
					return o
				}
				return fail("step %d: merge %d<-%d: %v", step, w, src, err)
			}
		case "observe":
			if err := syncFrom(cl, obs, w); err != nil {
				if err == world.ErrInconclusive {
					o.Inconclusive = true
					return o
				}
				return fail("step %d: observe %d: %v", step, w, err)
			}
			o.Labels = append(o.Labels, "observe")
		}
		// listing stability on every replica that changed: the observer and the merging writer
		for i, s := range cl.Stores {
			order, err := tr.checkOrder(s)
			if err != nil {
				return fail("after step %d, replica %d: %v", step, i, err)
			}
			l, err := listHashes(s.(iface.EventLogStore), &iface.StreamOptions{Amount: &minus1})
			if err != nil {
				return fail("after step %d, replica %d: List failed: %v", step, i, err)
			}
			if !eqStrings(l, order) {
				return fail("after step %d, replica %d: List(-1) differs from the log order", step, i)
			}
			if i == obs {
				if !isSubsequence(prev, l) {
					return fail("after step %d: the observer's earlier listing %v is not a subsequence of the new one %v (entry removed or reordered)", step, shortAll(prev), shortAll(l))
				}
				if len(prev) > 0 && len(l) > len(prev) {
					// did something land before the previously last entry?
					last := prev[len(prev)-1]
					for k, h := range l {
						if h == last && k > len(prev)-1 {
							insertedBetween = true
						}
					}
				}
				prev = l
			}
		}
		if out := checkWindows(obs, false, fmt.Sprintf("after step %d", step)); out != nil {
			return out
		}
	}
	for _, ri := range []int{obs, 0} {
		if out := checkWindows(ri, true, "at the end"); out != nil {
			return out
		}
	}
	o.NonTrivial = insertedBetween && cutBoth
	if insertedBetween {
		o.Labels = append(o.Labels, "inserted-between")
	}
	if cutBoth {
		o.Labels = append(o.Labels, "window-cut-both")
	}
	return o
}

func amtStr(set bool, v int) string {
	if !set {
		return "unset"
	}
	return fmt.Sprint(v)
}

func pick(L []string, idx []int) []string {
	out := make([]string, 0, len(idx))
	for _, i := range idx {
		out = append(out, L[i])
	}
	return out
}

func positionsOf(L, hs []string) []int {
	pos := map[string]int{}
	for i, h := range L {
		pos[h] = i
	}
	out := []int{}
	for _, h := range hs {
		if p, ok := pos[h]; ok {
			out = append(out, p)
		} else {
			out = append(out, -1)
		}
	}
	return out
}

func shortAll(hs []string) []string {
	out := make([]string, len(hs))
	for i, h := range hs {
		out[i] = short(h)
	}
	return out
}

func TestC08(t *testing.T) { runCheck(t, "C08", genC08, execC08) }
