package checks

import (
	"context"
	"encoding/json"
	"fmt"
	"sort"
	"sync"
	"time"

	ipfslog "berty.tech/go-ipfs-log"
	"berty.tech/go-ipfs-log/entry"
	"berty.tech/go-orbit-db/iface"
	"verif/harness/model"
	"verif/harness/world"
)

const claimTimeout = 30 * time.Second

func entOf(e ipfslog.Entry) model.Ent {
	m := model.Ent{Hash: e.GetHash().String(), Time: e.GetClock().GetTime(), ID: append([]byte{}, e.GetClock().GetID()...)}
	for _, n := range e.GetNext() {
		m.Next = append(m.Next, n.String())
	}
	for _, n := range e.GetRefs() {
		m.Refs = append(m.Refs, n.String())
	}
	return m
}

// cloneHeads passes entries through their JSON wire form, as a network would.
func cloneHeads(hs []ipfslog.Entry) ([]ipfslog.Entry, error) {
	out := make([]ipfslog.Entry, 0, len(hs))
	for _, h := range hs {
		b, err := json.Marshal(h)
		if err != nil {
			return nil, err
		}
		e := &entry.Entry{}
		if err := json.Unmarshal(b, e); err != nil {
			return nil, err
		}
		out = append(out, e)
	}
	return out, nil
}

// tracker remembers what the harness itself did: the operation behind every
// entry and the causal past of every write.
type tracker struct {
	ents   map[string]model.Ent
	ops    map[string]model.Op
	past   map[string]map[string]bool
	author map[string]int
	seq    []string // write order (global)
}

func newTracker() *tracker {
	return &tracker{ents: map[string]model.Ent{}, ops: map[string]model.Op{}, past: map[string]map[string]bool{}, author: map[string]int{}}
}

func hashSetOf(s iface.Store) map[string]bool {
	m := map[string]bool{}
	for _, e := range s.OpLog().GetEntries().Slice() {
		m[e.GetHash().String()] = true
	}
	return m
}

// noteWrites registers the entries that appeared on store s (replica w) since
// `before`, assigning them ops in clock order.
func (tr *tracker) noteWrites(s iface.Store, w int, before map[string]bool, ops []model.Op) error {
	var fresh []ipfslog.Entry
	for _, e := range s.OpLog().GetEntries().Slice() {
		if !before[e.GetHash().String()] {
			fresh = append(fresh, e)
		}
	}
	if len(fresh) != len(ops) {
		return fmt.Errorf("expected %d new entries after the write call, log shows %d", len(ops), len(fresh))
	}
	sort.Slice(fresh, func(i, j int) bool { return fresh[i].GetClock().GetTime() < fresh[j].GetClock().GetTime() })
	past := map[string]bool{}
	for h := range before {
		past[h] = true
	}
	for i, e := range fresh {
		h := e.GetHash().String()
		tr.ents[h] = entOf(e)
		tr.ops[h] = ops[i]
		tr.author[h] = w
		p := map[string]bool{}
		for k := range past {
			p[k] = true
		}
		tr.past[h] = p
		past[h] = true
		tr.seq = append(tr.seq, h)
	}
	return nil
}

// modelOrder returns the hashes a replica holds in the reference total order.
func (tr *tracker) modelOrder(held map[string]bool) ([]string, error) {
	var es []model.Ent
	for h := range held {
		e, ok := tr.ents[h]
		if !ok {
			return nil, fmt.Errorf("replica holds entry %s that the harness never wrote", h)
		}
		es = append(es, e)
	}
	if !model.UniquePairs(es) {
		return nil, fmt.Errorf("harness error: (time,id) pairs not unique")
	}
	var out []string
	for _, e := range model.Order(es) {
		out = append(out, e.Hash)
	}
	return out, nil
}

func (tr *tracker) opsIn(order []string) []model.Op {
	out := make([]model.Op, len(order))
	for i, h := range order {
		out[i] = tr.ops[h]
	}
	return out
}

// checkOrder verifies Values() == model order and that the order extends the
// recorded happens-before.
func (tr *tracker) checkOrder(s iface.Store) ([]string, error) {
	got := world.Hashes(s)
	held := hashSetOf(s)
	want, err := tr.modelOrder(held)
	if err != nil {
		return nil, err
	}
	if len(got) != len(want) {
		return nil, fmt.Errorf("Values() lists %d entries, the log holds %d", len(got), len(want))
	}
	for i := range got {
		if got[i] != want[i] {
			return nil, fmt.Errorf("Values()[%d]=%s but the (time,id) order puts %s there", i, short(got[i]), short(want[i]))
		}
	}
	pos := map[string]int{}
	for i, h := range got {
		pos[h] = i
	}
	for h, i := range pos {
		for p := range tr.past[h] {
			if j, ok := pos[p]; ok && j > i {
				return nil, fmt.Errorf("entry %s is listed before %s which its author had already seen", short(h), short(p))
			}
		}
	}
	return got, nil
}

func short(h string) string {
	if len(h) > 10 {
		return h[len(h)-8:]
	}
	return h
}

// syncFrom makes dst merge src's current heads through a manual Sync and
// waits until dst holds everything src held.
func syncFrom(c *world.Cluster, dst, src int) error {
	ctx := context.Background()
	heads, err := cloneHeads(world.Heads(c.Stores[src]))
	if err != nil {
		return err
	}
	want := world.HashSet(c.Stores[src])
	if err := c.Stores[dst].Sync(ctx, heads); err != nil {
		return fmt.Errorf("Sync returned %v", err)
	}
	return c.W.WaitClaim(fmt.Sprintf("replica %d holds all %d entries of replica %d", dst, len(want), src), func() bool {
		have := hashSetOf(c.Stores[dst])
		for _, h := range want {
			if !have[h] {
				return false
			}
		}
		return c.W.Quiescent([]iface.Store{c.Stores[dst]}, nil)
	}, []iface.Store{c.Stores[dst]}, nil, claimTimeout)
}

// syncAllFrom announces every entry replica src holds (not only its heads) to replica dst and waits
// until dst holds them all: the way to complete a replica that holds the newest part of a log only.
func syncAllFrom(c *world.Cluster, dst, src int) error {
	ctx := context.Background()
	all := c.Stores[src].OpLog().Values().Slice()
	want := world.HashSet(c.Stores[src])
	for i := 0; i < len(all); i += 6 {
		j := i + 6
		if j > len(all) {
			j = len(all)
		}
		hs, err := cloneHeads(all[i:j])
		if err != nil {
			return err
		}
		if err := c.Stores[dst].Sync(ctx, hs); err != nil {
			return fmt.Errorf("Sync returned %v", err)
		}
	}
	return c.W.WaitClaim(fmt.Sprintf("replica %d holds all %d entries of replica %d, each of which was announced to it", dst, len(want), src), func() bool {
		have := hashSetOf(c.Stores[dst])
		for _, h := range want {
			if !have[h] {
				return false
			}
		}
		return c.W.Quiescent([]iface.Store{c.Stores[dst]}, nil)
	}, []iface.Store{c.Stores[dst]}, nil, claimTimeout)
}

// noteOwnWrite registers one entry written on replica w whose hash the write call returned; its causal
// past is what the replica held before the call.
func (tr *tracker) noteOwnWrite(s iface.Store, w int, before map[string]bool, hash string, op model.Op) error {
	e, ok := s.OpLog().Get(mustCid(hash))
	if !ok {
		return fmt.Errorf("the entry returned by the write call is not in the log")
	}
	tr.ents[hash] = entOf(e)
	tr.ops[hash] = op
	tr.author[hash] = w
	p := map[string]bool{}
	for k := range before {
		p[k] = true
	}
	tr.past[hash] = p
	tr.seq = append(tr.seq, hash)
	return nil
}

// writeWithMergeInside runs write() on replica w and, while that call sits between persisting its head
// and refreshing its view (hook store.addop.persisted), lets replica w merge everything replica src
// holds; then the write call resumes. Returns what write returned.
func writeWithMergeInside(cl *world.Cluster, w, src int, write func() (string, error)) (hash string, parkedOK bool, err error) {
	s := cl.Stores[w]
	gate := make(chan struct{})
	parked := make(chan struct{}, 1)
	var once sync.Once
	remove := world.AddHook(func(name string, subject interface{}, args []interface{}) {
		if name != "store.addop.persisted" || subject != interface{}(s.Replicator()) {
			return
		}
		first := false
		once.Do(func() { first = true })
		if first {
			parked <- struct{}{}
			<-gate
		}
	})
	defer remove()
	type res struct {
		h   string
		err error
	}
	done := make(chan res, 1)
	go func() {
		h, err := write()
		done <- res{h, err}
	}()
	select {
	case <-parked:
		parkedOK = true
	case r := <-done:
		close(gate)
		return r.h, false, r.err
	case <-time.After(20 * time.Second):
		close(gate)
		return "", false, world.ErrInconclusive
	}
	serr := syncFrom(cl, w, src)
	close(gate)
	select {
	case r := <-done:
		if r.err != nil {
			return r.h, true, r.err
		}
		if serr != nil {
			return r.h, true, serr
		}
		return r.h, true, nil
	case <-time.After(20 * time.Second):
		return "", true, fmt.Errorf("the write call did not return after the merge inside it completed")
	}
}
