package checks

import (
	"testing"

	"pgregory.net/rapid"
)

// C16 (e) — replicated events on batches part of which the store refuses: the
// scenarios of C03 with entries by a non-writer (delivered as a head, or as
// the ancestor / skip reference of an authorised writer's head), with a
// subscriber that checks each announced entry against the log at the moment
// the event is received.

func genC16e(rt *rapid.T) CaseC03 {
	c := CaseC03{
		Type:    rapid.SampledFrom([]string{"eventlog", "keyvalue", "docstore"}).Draw(rt, "type"),
		List:    rapid.SampledFrom([]string{"subset", "subset", "creator", "wildcard"}).Draw(rt, "list"),
		Authors: rapid.IntRange(1, 2).Draw(rt, "authors"),
		PreSync: rapid.Bool().Draw(rt, "presync"),
		Kind:    rapid.SampledFrom([]string{"nonwriter", "nonwriter", "nonwriter-otherlog", "stolen-key-field"}).Draw(rt, "kind"),
		Route:   rapid.SampledFrom([]string{"sync", "topic", "direct", "ancestor", "ancestor", "ancestor-refs", "loadmore", "snapqueue"}).Draw(rt, "route"),
		Honest:  rapid.IntRange(0, 2).Draw(rt, "honest"),
		Chain:   rapid.IntRange(1, 3).Draw(rt, "chain"),
	}
	c.Hist = genHist(rt, c.Authors, 6)
	return c
}

func execC16e(c CaseC03) *Outcome { return execC03x(c, true) }

func TestC16Refused(t *testing.T) { runCheck(t, "C16", genC16e, execC16e) }
