package checks

import (
	"context"
	"testing"
	"time"

	"berty.tech/go-orbit-db/iface"
	"verif/harness/world"
)

func TestSmoke(t *testing.T) {
	if !world.HooksLive() {
		t.Fatalf("hooks are not live: build with -tags verif")
	}
	world.ResetHooks()
	ctx := context.Background()
	t0 := time.Now()
	c, err := world.NewCluster(ctx, world.ClusterOpts{N: 3, Type: "keyvalue"})
	if err != nil {
		t.Fatal(err)
	}
	defer c.Close()
	t.Logf("cluster up in %v addr %s", time.Since(t0), c.Addr)
	kv0 := c.Stores[0].(iface.KeyValueStore)
	for i := 0; i < 5; i++ {
		if _, err := kv0.Put(ctx, "k", []byte{byte(i)}); err != nil {
			t.Fatal(err)
		}
	}
	t1 := time.Now()
	err = c.W.WaitClaim("replicated", func() bool {
		return c.Stores[1].OpLog().Len() == 5 && c.Stores[2].OpLog().Len() == 5
	}, c.Open(), nil, 10*time.Second)
	t.Logf("replicated in %v err=%v lens %d %d", time.Since(t1), err, c.Stores[1].OpLog().Len(), c.Stores[2].OpLog().Len())
	if err != nil {
		t.Fatal(err)
	}
	if !c.Settle(5 * time.Second) {
		t.Fatal("not settled")
	}
	v, _ := c.Stores[2].(iface.KeyValueStore).Get(ctx, "k")
	if len(v) != 1 || v[0] != 4 {
		t.Fatalf("got %v", v)
	}
	if err := c.Reopen(ctx, 1); err != nil {
		t.Fatal(err)
	}
	if c.Stores[1].OpLog().Len() != 5 {
		t.Fatalf("after reopen: %d", c.Stores[1].OpLog().Len())
	}
}
