package checks

import (
	"context"
	"fmt"
	"os"
	"path/filepath"
	"sync"
	"testing"
	"time"

	orbitdb "berty.tech/go-orbit-db"
	"berty.tech/go-orbit-db/accesscontroller"
	"berty.tech/go-orbit-db/iface"
	"berty.tech/go-orbit-db/stores/basestore"
	"pgregory.net/rapid"
	"verif/harness/world"
)

// C18 — Close and Drop are clean: idempotent, leak-free, scoped to one database.

type CaseC18 struct {
	Types         []string `json:"types"`     // 1-3 databases on the instance
	Writes        []int    `json:"writes"`    // acknowledged local writes per database
	Remote        []int    `json:"remote"`    // entries authored elsewhere per database
	InFlight      []string `json:"in_flight"` // per database: none | repl (replication with fetches parked at close time) | merged (replicated before)
	Action        string   `json:"action"`    // close-store | close-store-twice | close-store-concurrent | drop | close-instance | close-instance-twice | close-instance-concurrent
	Target        int      `json:"target"`
	ReleaseBefore bool     `json:"release_before"` // parked fetches are released before (true) or after the close call
	MidWrite      bool     `json:"mid_write"`      // a writer goroutine keeps writing while the close happens
	// LateHeads: after the close the author writes new entries and their heads are handed to the closed
	// store (Sync after close) while its fetches would park: nothing may be left running for them
	LateHeads bool `json:"late_heads,omitempty"`
	// SharedOpts: every database of the instance is opened through one options value, as callers do
	SharedOpts bool `json:"shared_opts,omitempty"`
	// NoRepl: the instance under test opens its databases with replication off (no topic, no head exchange):
	// entries still reach them by Sync, and their replicators still have to be stopped
	NoRepl bool `json:"no_repl,omitempty"`
}

func genC18(rt *rapid.T) CaseC18 {
	n := rapid.IntRange(1, 3).Draw(rt, "ndbs")
	c := CaseC18{
		Action:        rapid.SampledFrom([]string{"close-store", "close-store-twice", "close-store-concurrent", "drop", "drop", "close-instance", "close-instance-twice", "close-instance-concurrent"}).Draw(rt, "action"),
		Target:        rapid.IntRange(0, n-1).Draw(rt, "target"),
		ReleaseBefore: rapid.Bool().Draw(rt, "releaseBefore"),
		MidWrite:      rapid.Bool().Draw(rt, "midWrite"),
		LateHeads:     rapid.Bool().Draw(rt, "lateHeads"),
		SharedOpts:    rapid.Bool().Draw(rt, "sharedOpts"),
		NoRepl:        rapid.IntRange(0, 2).Draw(rt, "noRepl") == 0,
	}
	for i := 0; i < n; i++ {
		c.Types = append(c.Types, rapid.SampledFrom([]string{"eventlog", "keyvalue", "docstore"}).Draw(rt, "type"))
		c.Writes = append(c.Writes, rapid.IntRange(0, 4).Draw(rt, "writes"))
		c.Remote = append(c.Remote, rapid.IntRange(0, 3).Draw(rt, "remote"))
		c.InFlight = append(c.InFlight, rapid.SampledFrom([]string{"none", "repl", "repl", "merged", "load", "load"}).Draw(rt, "inflight"))
	}
	return c
}

// guarded runs f under a watchdog and reports a panic or a hang.
func guarded(name string, f func()) error {
	done := make(chan interface{}, 1)
	go func() {
		defer func() { done <- recover() }()
		f()
	}()
	select {
	case r := <-done:
		if r != nil {
			return fmt.Errorf("%s panicked: %v", name, r)
		}
		return nil
	case <-time.After(20 * time.Second):
		return fmt.Errorf("%s did not return within 20s", name)
	}
}

func execC18(c CaseC18) *Outcome {
	ctx := context.Background()
	o := &Outcome{}
	world.ResetHooks()
	dir, err := os.MkdirTemp("", "verif-c18-")
	if err != nil {
		return fail("harness: %v", err)
	}
	defer os.RemoveAll(dir)
	w, err := world.New(2, nil)
	if err != nil {
		return fail("harness: %v", err)
	}
	defer w.Close()
	p0, p1 := w.Peers[0], w.Peers[1]
	if _, err := p1.StartInstance(ctx); err != nil {
		return fail("harness: %v", err)
	}
	no := false
	n := len(c.Types)
	ss := make([]iface.Store, n)
	as := make([]iface.Store, n)
	addrs := make([]string, n)
	acked := make([][]string, n)
	cnt := 0
	// the author instance creates the databases (replication off); it stays up for the whole case
	for d := 0; d < n; d++ {
		ac := &accesscontroller.CreateAccessControllerOptions{Access: map[string][]string{"write": {"*"}}}
		a, err := p1.DB.Create(ctx, fmt.Sprintf("db%d", d), c.Types[d], &orbitdb.CreateDBOptions{AccessController: ac, Replicate: &no})
		if err != nil {
			return fail("harness: create: %v", err)
		}
		as[d] = a
		addrs[d] = a.Address().String()
		if err := a.Load(ctx, -1); err != nil {
			return fail("harness: load author: %v", err)
		}
	}
	// everything started from here on belongs to the instance under test
	before := world.GoroutineIDs()
	db0, err := p0.StartInstanceOnDir(ctx, dir)
	if err != nil {
		return fail("harness: %v", err)
	}
	shared := &orbitdb.CreateDBOptions{}
	if c.NoRepl {
		shared.Replicate = &no
	}
	openOpts := func() *orbitdb.CreateDBOptions {
		if c.SharedOpts {
			return shared
		}
		if c.NoRepl {
			return &orbitdb.CreateDBOptions{Replicate: &no}
		}
		return &orbitdb.CreateDBOptions{}
	}
	for d := 0; d < n; d++ {
		s, err := db0.Open(ctx, addrs[d], openOpts())
		if err != nil {
			return fail("harness: open: %v", err)
		}
		ss[d] = s
		if err := s.Load(ctx, -1); err != nil {
			return fail("harness: load: %v", err)
		}
		for k := 0; k < c.Writes[d]; k++ {
			h, err := writeReturningHash(ctx, s, c.Types[d], k%2, 3, cnt)
			cnt++
			if err != nil {
				return fail("harness: write: %v", err)
			}
			acked[d] = append(acked[d], h)
		}
		for k := 0; k < c.Remote[d]; k++ {
			if _, err := writeReturningHash(ctx, as[d], c.Types[d], 2, 3, cnt); err != nil {
				return fail("harness: author write: %v", err)
			}
			cnt++
		}
	}
	if !w.WaitQuiescent(ss, nil, claimTimeout) {
		o.Inconclusive = true
		return o
	}
	// replications: merged ones complete, in-flight ones stay parked
	parkedAny := false
	for d := 0; d < n; d++ {
		if c.Remote[d] == 0 || c.InFlight[d] == "none" {
			continue
		}
		heads, err := cloneHeads(world.Heads(as[d]))
		if err != nil {
			return fail("harness: %v", err)
		}
		if c.InFlight[d] == "merged" {
			want := world.HashSet(as[d])
			if err := ss[d].Sync(ctx, heads); err != nil {
				return fail("harness: Sync: %v", err)
			}
			err := w.WaitClaim("merged", func() bool {
				have := hashSetOf(ss[d])
				for _, h := range want {
					if !have[h] {
						return false
					}
				}
				return w.Quiescent([]iface.Store{ss[d]}, nil)
			}, []iface.Store{ss[d]}, nil, claimTimeout)
			if err != nil {
				o.Inconclusive = true
				return o
			}
			acked[d] = append(acked[d], want...)
		}
	}
	// loads in flight: the store is reopened (heads on disk, nothing loaded) and Load parks in its first fetch
	loadDone := map[int]chan error{}
	for d := 0; d < n; d++ {
		if c.InFlight[d] != "load" || len(acked[d]) == 0 {
			continue
		}
		if err := ss[d].Close(); err != nil {
			return fail("harness: close before reload: %v", err)
		}
		s, err := db0.Open(ctx, addrs[d], openOpts())
		if err != nil {
			return fail("harness: reopen: %v", err)
		}
		ss[d] = s
		loadDone[d] = make(chan error, 1)
	}
	for d := 0; d < n; d++ {
		if c.Remote[d] == 0 || c.InFlight[d] != "repl" {
			continue
		}
		heads, _ := cloneHeads(world.Heads(as[d]))
		p0.SetGate(true)
		if err := ss[d].Sync(ctx, heads); err != nil {
			p0.SetGate(false)
			return fail("harness: Sync: %v", err)
		}
		parkedAny = true
	}
	for d := range loadDone {
		p0.SetGate(true)
		s, ch := ss[d], loadDone[d]
		go func() {
			defer func() {
				if r := recover(); r != nil {
					ch <- fmt.Errorf("Load panicked: %v", r)
				}
			}()
			ch <- s.Load(ctx, -1)
		}()
		parkedAny = true
	}
	if parkedAny {
		world.WaitFor(func() bool { return len(p0.Parked()) > 0 }, 5*time.Second)
	}
	// a writer that keeps going while the close happens
	var wg sync.WaitGroup
	stopWriter := make(chan struct{})
	var midAcked []string
	var midMu sync.Mutex
	t := c.Target % n
	// (a store is only written after it has been loaded - every caller does so; a target whose Load is the
	// in-flight operation therefore gets no concurrent writer)
	if _, loading := loadDone[t]; c.MidWrite && !loading {
		wg.Add(1)
		go func() {
			defer wg.Done()
			defer func() { recover() }()
			for i := 0; i < 200; i++ {
				select {
				case <-stopWriter:
					return
				default:
				}
				h, err := writeReturningHash(ctx, ss[t], c.Types[t], 1, 2, 5000+i)
				if err == nil {
					midMu.Lock()
					midAcked = append(midAcked, h)
					midMu.Unlock()
				}
			}
		}()
		time.Sleep(300 * time.Microsecond)
	}
	if parkedAny && c.ReleaseBefore {
		p0.SetGate(false)
	}

	// the closing action
	var actErr error
	instanceClosed := false
	dropped := -1
	switch c.Action {
	case "close-store":
		actErr = guarded("Store.Close", func() { _ = ss[t].Close() })
	case "close-store-twice":
		actErr = guarded("Store.Close", func() { _ = ss[t].Close() })
		if actErr == nil {
			actErr = guarded("second Store.Close", func() {
				if err := ss[t].Close(); err != nil {
					panic(fmt.Sprintf("second Close returned %v", err))
				}
			})
		}
	case "close-store-concurrent":
		actErr = guarded("two concurrent Store.Close", func() {
			var g sync.WaitGroup
			for i := 0; i < 2; i++ {
				g.Add(1)
				go func() { defer g.Done(); _ = ss[t].Close() }()
			}
			g.Wait()
		})
	case "drop":
		actErr = guarded("Store.Drop", func() {
			if err := ss[t].Drop(); err != nil {
				panic(fmt.Sprintf("Drop returned %v", err))
			}
		})
		dropped = t
	case "close-instance":
		actErr = guarded("OrbitDB.Close", func() { _ = db0.Close() })
		instanceClosed = true
	case "close-instance-twice":
		actErr = guarded("OrbitDB.Close", func() { _ = db0.Close() })
		if actErr == nil {
			actErr = guarded("second OrbitDB.Close", func() { _ = db0.Close() })
		}
		instanceClosed = true
	case "close-instance-concurrent":
		actErr = guarded("two concurrent OrbitDB.Close", func() {
			var g sync.WaitGroup
			for i := 0; i < 2; i++ {
				g.Add(1)
				go func() { defer g.Done(); _ = db0.Close() }()
			}
			g.Wait()
		})
		instanceClosed = true
	}
	close(stopWriter)
	if err := guarded("the concurrent writer", func() { wg.Wait() }); err != nil {
		return fail("%s (%s): %v", c.Action, summaryC18(c), err)
	}
	if parkedAny && !c.ReleaseBefore {
		p0.SetGate(false)
	}
	if actErr != nil {
		return fail("%s (%s): %v", c.Action, summaryC18(c), actErr)
	}
	for d, ch := range loadDone {
		select {
		case err := <-ch:
			if err != nil && len(err.Error()) > 14 && err.Error()[:14] == "Load panicked:" {
				return fail("%s (%s), database %d: %v", c.Action, summaryC18(c), d, err)
			}
		case <-time.After(20 * time.Second):
			return fail("%s (%s): the Load of database %d that was in flight did not return within 20s after the close", c.Action, summaryC18(c), d)
		}
	}

	// every public operation on the closed object returns (error or harmless result)
	closedStores := []int{t}
	if instanceClosed {
		closedStores = seq(n)
	}
	if instanceClosed {
		ops := map[string]func(){
			"Open on a closed instance":             func() { _, _ = db0.Open(ctx, addrs[0], &orbitdb.CreateDBOptions{}) },
			"Create on a closed instance":           func() { _, _ = db0.Create(ctx, "late", "eventlog", nil) },
			"DetermineAddress on a closed instance": func() { _, _ = db0.DetermineAddress(ctx, "late2", "eventlog", nil) },
		}
		for _, name := range sortedKeys(ops) {
			if err := guarded(name, ops[name]); err != nil {
				return fail("%s (%s): %v", c.Action, summaryC18(c), err)
			}
		}
	}

	lateGate := false
	for _, d := range closedStores {
		s := ss[d]
		d := d
		if c.LateHeads {
			for k := 0; k < 2; k++ {
				if _, err := writeReturningHash(ctx, as[d], c.Types[d], 2, 3, 6000+10*d+k); err != nil {
					return fail("harness: late author write: %v", err)
				}
			}
		}
		ops := map[string]func(){
			"write after close": func() { _, _ = writeReturningHash(ctx, s, c.Types[d], 0, 1, 9000) },
			"view after close":  func() { _, _ = viewOf(s, c.Types[d]) },
			"Load after close":  func() { _ = s.Load(ctx, -1) },
			"Sync after close": func() {
				hs, _ := cloneHeads(world.Heads(as[d]))
				if c.LateHeads {
					// heads the closed store has never seen, and every fetch of this peer parks from here on
					p0.SetGate(true)
					lateGate = true
				}
				_ = s.Sync(ctx, hs)
			},
			"LoadFromSnapshot after close":  func() { _ = s.LoadFromSnapshot(ctx) },
			"SaveSnapshot after close":      func() { _, _ = basestore.SaveSnapshot(ctx, s) },
			"ReplicationStatus after close": func() { _ = s.ReplicationStatus().GetProgress() },
			"Close after close":             func() { _ = s.Close() },
		}
		for _, name := range sortedKeys(ops) {
			if err := guarded(name, ops[name]); err != nil {
				return fail("%s (%s), database %d: %v", c.Action, summaryC18(c), d, err)
			}
		}
	}
	// siblings of a closed/dropped store keep working
	if !instanceClosed {
		for d := 0; d < n; d++ {
			if d == t {
				continue
			}
			h, err := writeReturningHash(ctx, ss[d], c.Types[d], 0, 2, 7000+d)
			if err != nil {
				return fail("%s of database %d: sibling database %d is no longer writable: %v", c.Action, t, d, err)
			}
			acked[d] = append(acked[d], h)
			have := hashSetOf(ss[d])
			for _, x := range acked[d] {
				if !have[x] {
					return fail("%s of database %d: sibling database %d lost entry %s", c.Action, t, d, short(x))
				}
			}
		}
	}
	midMu.Lock()
	acked[t] = append(acked[t], midAcked...)
	midMu.Unlock()

	// shut the whole instance down and look for what is left running
	if err := guarded("OrbitDB.Close", func() { _ = db0.Close() }); err != nil {
		return fail("%s: %v", summaryC18(c), err)
	}
	p0.Detach()
	var left []world.Goroutine
	if !world.WaitFor(func() bool {
		left = nil
		for _, g := range world.OrbitGoroutines(before) {
			// the author instance (peer 1) is still running: only goroutines of the closed instance count.
			left = append(left, g)
		}
		return len(leftOfClosed(left, p1)) == 0
	}, 20*time.Second) {
		l := leftOfClosed(left, p1)
		return fail("%s (%s): %d goroutine(s) started by go-orbit-db are still alive after the instance was closed, e.g.:\n%s", c.Action, summaryC18(c), len(l), clipStack(l[0].Stack))
	}

	if lateGate {
		p0.SetGate(false)
	}

	// reopen from the directory
	db1, err := p0.StartInstanceOnDir(ctx, dir)
	if err != nil {
		return fail("%s: the directory cannot be reopened: %v", c.Action, err)
	}
	for d := 0; d < n; d++ {
		s, err := db1.Open(ctx, addrs[d], &orbitdb.CreateDBOptions{Replicate: &no})
		if err != nil {
			return fail("%s: database %d cannot be reopened: %v", c.Action, d, err)
		}
		if err := s.Load(ctx, -1); err != nil {
			return fail("%s: Load(-1) of database %d after reopen failed: %v", c.Action, d, err)
		}
		have := hashSetOf(s)
		if d == dropped {
			if len(have) != 0 {
				return fail("after Drop, reopening database %d still yields %d entries", d, len(have))
			}
			continue
		}
		for _, x := range acked[d] {
			if !have[x] {
				return fail("%s (%s): acknowledged entry %s of database %d is missing after reopen + Load(-1) (%d of %d present)", c.Action, summaryC18(c), short(x), d, countIn(have, toSet(acked[d])), len(acked[d]))
			}
		}
		if _, err := writeReturningHash(ctx, s, c.Types[d], 0, 2, 8000+d); err != nil {
			return fail("%s: database %d is not writable after reopen: %v", c.Action, d, err)
		}
	}
	if dropped >= 0 {
		// the dropped database's directory is gone, the siblings' are not
		for d := 0; d < n; d++ {
			a := ss[d].Address()
			pth := filepath.Join(dir, a.GetRoot().String(), a.GetPath())
			_, err := os.Stat(pth)
			if d != dropped && os.IsNotExist(err) {
				return fail("Drop of database %d removed the directory of sibling database %d", dropped, d)
			}
		}
	}
	_ = db1.Close()
	p0.Detach()
	o.NonTrivial = (parkedAny && !c.ReleaseBefore) || n >= 2
	o.Labels = append(o.Labels, "action:"+c.Action)
	if parkedAny && !c.ReleaseBefore {
		o.Labels = append(o.Labels, "closed-with-parked-replication")
	}
	if c.MidWrite {
		o.Labels = append(o.Labels, "closed-mid-write")
	}
	if lateGate {
		o.Labels = append(o.Labels, "new-heads-handed-to-the-closed-store")
	}
	if c.SharedOpts && n >= 2 {
		o.Labels = append(o.Labels, "shared-options-value")
	}
	return o
}

func leftOfClosed(gs []world.Goroutine, _ *world.Peer) []world.Goroutine { return gs }

func toSet(hs []string) map[string]bool {
	m := map[string]bool{}
	for _, h := range hs {
		m[h] = true
	}
	return m
}

func clipStack(s string) string {
	if len(s) > 1800 {
		return s[:1800] + "\n…"
	}
	return s
}

func summaryC18(c CaseC18) string {
	return fmt.Sprintf("%d database(s), in flight %v, fetches released before close: %v, concurrent writer: %v, replication option off: %v", len(c.Types), c.InFlight, c.ReleaseBefore, c.MidWrite, c.NoRepl)
}

func TestC18(t *testing.T) { runCheck(t, "C18", genC18, execC18) }
