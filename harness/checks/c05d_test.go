package checks

import (
	"context"
	"fmt"
	"os"
	"strings"
	"testing"

	orbitdb "berty.tech/go-orbit-db"
	"berty.tech/go-orbit-db/accesscontroller"
	"berty.tech/go-orbit-db/iface"
	"pgregory.net/rapid"
	"verif/harness/world"
)

// C05 (d) — clean close/reopen cycles on a real on-disk directory: the library's
// own leveldb cache and on-disk keystore (the crash-point check runs on the
// harness's journaled in-memory disk), one or two databases on the instance.

type StepC05d struct {
	Kind string `json:"kind"` // local | remote | restart | closestore
	DB   int    `json:"db"`
	N    int    `json:"n,omitempty"`
	Key  int    `json:"key,omitempty"`
}

type CaseC05d struct {
	Types []string   `json:"types"`
	Steps []StepC05d `json:"steps"`
}

func genC05d(rt *rapid.T) CaseC05d {
	var c CaseC05d
	nd := rapid.IntRange(1, 2).Draw(rt, "ndbs")
	for i := 0; i < nd; i++ {
		c.Types = append(c.Types, rapid.SampledFrom([]string{"eventlog", "keyvalue", "docstore"}).Draw(rt, "type"))
	}
	n := rapid.IntRange(2, 9).Draw(rt, "nsteps")
	for i := 0; i < n; i++ {
		st := StepC05d{
			Kind: rapid.SampledFrom([]string{"local", "local", "remote", "restart", "restart", "closestore"}).Draw(rt, "kind"),
			DB:   rapid.IntRange(0, nd-1).Draw(rt, "db"),
		}
		if st.Kind == "local" || st.Kind == "remote" {
			st.N = rapid.IntRange(1, 3).Draw(rt, "n")
			st.Key = rapid.IntRange(0, 2).Draw(rt, "key")
		}
		c.Steps = append(c.Steps, st)
	}
	c.Steps = append(c.Steps, StepC05d{Kind: "restart"})
	return c
}

func execC05d(c CaseC05d) *Outcome {
	ctx := context.Background()
	o := &Outcome{}
	world.ResetHooks()
	dir, err := os.MkdirTemp("", "verif-c05-")
	if err != nil {
		return fail("harness: %v", err)
	}
	defer os.RemoveAll(dir)
	w, err := world.New(2, nil)
	if err != nil {
		return fail("harness: %v", err)
	}
	defer w.Close()
	p0, p1 := w.Peers[0], w.Peers[1]
	if _, err := p1.StartInstance(ctx); err != nil {
		return fail("harness: %v", err)
	}
	no := false
	n := len(c.Types)
	as := make([]iface.Store, n)
	ss := make([]iface.Store, n)
	addrs := make([]string, n)
	acked := make([]map[string]bool, n)
	for d := 0; d < n; d++ {
		// both databases carry the same name: they differ by type and/or write list only (so do their addresses)
		wl := []string{"*"}
		if d == 1 {
			wl = append(wl, p1.DB.Identity().ID)
		}
		ac := &accesscontroller.CreateAccessControllerOptions{Access: map[string][]string{"write": wl}}
		a, err := p1.DB.Create(ctx, "db", c.Types[d], &orbitdb.CreateDBOptions{AccessController: ac, Replicate: &no})
		if err != nil {
			return fail("harness: create: %v", err)
		}
		if err := a.Load(ctx, -1); err != nil {
			return fail("harness: %v", err)
		}
		as[d], addrs[d], acked[d] = a, a.Address().String(), map[string]bool{}
	}
	openAll := func() (orbitdb.OrbitDB, error) {
		db, err := p0.StartInstanceOnDir(ctx, dir)
		if err != nil {
			return nil, fmt.Errorf("the directory cannot be opened: %v", err)
		}
		// one options value for every database of the instance, as callers commonly do
		shared := &orbitdb.CreateDBOptions{Replicate: &no}
		for d := 0; d < n; d++ {
			s, err := db.Open(ctx, addrs[d], shared)
			if err != nil {
				return nil, fmt.Errorf("database %d cannot be opened: %v", d, err)
			}
			if err := s.Load(ctx, -1); err != nil {
				return nil, fmt.Errorf("Load(-1) of database %d failed: %v", d, err)
			}
			ss[d] = s
		}
		return db, nil
	}
	db, err := openAll()
	if err != nil {
		return fail("first start: %v", err)
	}
	defer func() { p0.StopInstance() }()
	identity := db.Identity().ID
	cnt, restarts, withRemote := 0, 0, false
	check := func(when string) *Outcome {
		for d := 0; d < n; d++ {
			have := hashSetOf(ss[d])
			for h := range acked[d] {
				if !have[h] {
					return fail("%s: acknowledged entry %s of database %d (%s) is missing (%d of %d present)", when, short(h), d, c.Types[d], countIn(have, acked[d]), len(acked[d]))
				}
			}
			for h := range have {
				if !acked[d][h] {
					other := ""
					for e := 0; e < n; e++ {
						if e != d && acked[e][h] {
							other = fmt.Sprintf(" (it belongs to database %d)", e)
						}
					}
					return fail("%s: database %d lists entry %s which was never written to it%s", when, d, short(h), other)
				}
			}
		}
		return nil
	}
	for si, st := range c.Steps {
		d := st.DB % n
		switch st.Kind {
		case "local":
			for k := 0; k < st.N; k++ {
				h, err := writeReturningHash(ctx, ss[d], c.Types[d], st.Key, 3, cnt)
				cnt++
				if err != nil {
					return fail("step %d: local write on database %d failed: %v", si, d, err)
				}
				acked[d][h] = true
			}
		case "remote":
			for k := 0; k < st.N; k++ {
				if _, err := writeReturningHash(ctx, as[d], c.Types[d], st.Key, 3, cnt); err != nil {
					return fail("harness: author write: %v", err)
				}
				cnt++
			}
			want := world.HashSet(as[d])
			heads, err := cloneHeads(world.Heads(as[d]))
			if err != nil {
				return fail("harness: %v", err)
			}
			if err := ss[d].Sync(ctx, heads); err != nil {
				return fail("step %d: Sync failed: %v", si, err)
			}
			s := ss[d]
			if err := w.WaitClaim("the author's entries are replicated", func() bool {
				have := hashSetOf(s)
				for _, h := range want {
					if !have[h] {
						return false
					}
				}
				return w.Quiescent([]iface.Store{s}, nil)
			}, []iface.Store{s}, nil, claimTimeout); err != nil {
				if err == world.ErrInconclusive {
					o.Inconclusive = true
					return o
				}
				return fail("step %d: %v", si, err)
			}
			for _, h := range want {
				acked[d][h] = true
			}
			withRemote = true
		case "closestore":
			// one database is closed and reopened while the instance (and its sibling) stays up
			view, _ := viewOf(ss[d], c.Types[d])
			if err := ss[d].Close(); err != nil {
				return fail("step %d: Close of database %d failed: %v", si, d, err)
			}
			s, err := db.Open(ctx, addrs[d], &orbitdb.CreateDBOptions{Replicate: &no})
			if err != nil {
				return fail("step %d: database %d cannot be reopened: %v", si, d, err)
			}
			if err := s.Load(ctx, -1); err != nil {
				return fail("step %d: Load(-1) after reopening database %d failed: %v", si, d, err)
			}
			ss[d] = s
			if out := check(fmt.Sprintf("step %d, after closing and reopening database %d", si, d)); out != nil {
				return out
			}
			view2, _ := viewOf(s, c.Types[d])
			if strings.Join(view, "|") != strings.Join(view2, "|") {
				return fail("step %d: database %d shows a different state after close and reopen (%d vs %d items)", si, d, len(view), len(view2))
			}
		case "restart":
			views := make([][]string, n)
			for e := 0; e < n; e++ {
				views[e], _ = viewOf(ss[e], c.Types[e])
			}
			if err := guarded("OrbitDB.Close", func() { _ = db.Close() }); err != nil {
				return fail("step %d: %v", si, err)
			}
			p0.Detach()
			db, err = openAll()
			if err != nil {
				return fail("step %d, restart %d: %v", si, restarts+1, err)
			}
			restarts++
			if got := db.Identity().ID; got != identity {
				return fail("step %d: the instance has identity %s after the restart, %s before", si, short(got), short(identity))
			}
			if out := check(fmt.Sprintf("step %d, after restart %d", si, restarts)); out != nil {
				return out
			}
			for e := 0; e < n; e++ {
				v2, _ := viewOf(ss[e], c.Types[e])
				if strings.Join(views[e], "|") != strings.Join(v2, "|") {
					return fail("step %d: database %d (%s) shows a different state after the restart (%d vs %d items)", si, e, c.Types[e], len(views[e]), len(v2))
				}
				// still able to write, under the same identity
				h, err := writeReturningHash(ctx, ss[e], c.Types[e], 1, 2, 9000+cnt)
				cnt++
				if err != nil {
					return fail("step %d: database %d is not writable after the restart: %v", si, e, err)
				}
				acked[e][h] = true
				for _, en := range ss[e].OpLog().Heads().Slice() {
					if en.GetHash().String() == h && en.GetIdentity().ID != identity {
						return fail("step %d: the entry written after the restart is signed by %s, the identity before was %s", si, short(en.GetIdentity().ID), short(identity))
					}
				}
			}
		}
	}
	o.NonTrivial = restarts >= 2 && withRemote
	o.Labels = append(o.Labels, fmt.Sprintf("dbs=%d", n))
	if withRemote {
		o.Labels = append(o.Labels, "replicated-entries")
	}
	return o
}

func TestC05Dir(t *testing.T) { runCheck(t, "C05", genC05d, execC05d) }
