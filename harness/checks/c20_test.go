package checks

import (
	"bytes"
	"context"
	"crypto/sha256"
	"encoding/binary"
	"fmt"
	"sync"
	"testing"
	"time"

	"berty.tech/go-orbit-db/iface"
	"berty.tech/go-orbit-db/pubsub/directchannel"
	"berty.tech/go-orbit-db/pubsub/oneonone"
	"berty.tech/go-orbit-db/pubsub/pubsubcoreapi"
	"github.com/ipfs/boxo/path"
	coreiface "github.com/ipfs/kubo/core/coreiface"
	"github.com/ipfs/kubo/core/coreiface/options"
	"github.com/libp2p/go-libp2p/core/host"
	"github.com/libp2p/go-libp2p/core/peer"
	mocknet "github.com/libp2p/go-libp2p/p2p/net/mock"
	"go.uber.org/zap"
	"pgregory.net/rapid"
	"verif/harness/world"
)

// C20 — the bundled transport adapters deliver each payload once, intact, attributed to its sender.

// ---------------------------------------------------------------------------
// scripted lower layer

type fakeMsg struct {
	from peer.ID
	data []byte
}

func (m *fakeMsg) From() peer.ID    { return m.from }
func (m *fakeMsg) Data() []byte     { return m.data }
func (m *fakeMsg) Seq() []byte      { return nil }
func (m *fakeMsg) Topics() []string { return nil }

type fakeSub struct {
	mu     sync.Mutex
	cond   *sync.Cond
	queue  []*fakeMsg
	closed bool
}

func newFakeSub() *fakeSub {
	s := &fakeSub{}
	s.cond = sync.NewCond(&s.mu)
	return s
}

func (s *fakeSub) push(m *fakeMsg) {
	s.mu.Lock()
	s.queue = append(s.queue, m)
	s.cond.Broadcast()
	s.mu.Unlock()
}

func (s *fakeSub) Close() error {
	s.mu.Lock()
	s.closed = true
	s.cond.Broadcast()
	s.mu.Unlock()
	return nil
}

func (s *fakeSub) Next(ctx context.Context) (coreiface.PubSubMessage, error) {
	stop := context.AfterFunc(ctx, func() {
		s.mu.Lock()
		s.cond.Broadcast()
		s.mu.Unlock()
	})
	defer stop()
	s.mu.Lock()
	defer s.mu.Unlock()
	for len(s.queue) == 0 {
		if err := ctx.Err(); err != nil {
			return nil, err
		}
		if s.closed {
			return nil, context.Canceled
		}
		s.cond.Wait()
	}
	m := s.queue[0]
	s.queue = s.queue[1:]
	return m, nil
}

// hub is a pubsub shared by several fake nodes.
type hub struct {
	mu     sync.Mutex
	subs   map[string]map[peer.ID][]*fakeSub
	topics []string // every topic ever subscribed, in order
	// rendezvous > 1: a Subscribe call waits (up to 40 ms) until that many Subscribe calls of the same peer
	// are in progress, so that overlapping Connect calls really overlap inside the lower layer
	rendezvous int
	inSub      map[peer.ID]int
}

func newHub() *hub { return &hub{subs: map[string]map[peer.ID][]*fakeSub{}} }

type fakeAPI struct {
	coreiface.CoreAPI
	id  peer.ID
	hub *hub
	// scripted membership for pubsubcoreapi
	snapMu sync.Mutex
	snaps  [][]peer.ID
	snapI  int
	calls  int
}

type fakeKey struct{ id peer.ID }

func (k fakeKey) Name() string    { return "self" }
func (k fakeKey) Path() path.Path { return nil }
func (k fakeKey) ID() peer.ID     { return k.id }

type fakeKeyAPI struct {
	coreiface.KeyAPI
	id peer.ID
}

func (k fakeKeyAPI) Self(context.Context) (coreiface.Key, error) { return fakeKey{k.id}, nil }

type fakeSwarm struct{ coreiface.SwarmAPI }

func (fakeSwarm) Connect(context.Context, peer.AddrInfo) error { return nil }

func (a *fakeAPI) Key() coreiface.KeyAPI       { return fakeKeyAPI{id: a.id} }
func (a *fakeAPI) Swarm() coreiface.SwarmAPI   { return fakeSwarm{} }
func (a *fakeAPI) PubSub() coreiface.PubSubAPI { return (*fakePubSub)(a) }

type fakePubSub fakeAPI

func (p *fakePubSub) Ls(context.Context) ([]string, error) { return nil, nil }

func (p *fakePubSub) Peers(ctx context.Context, opts ...options.PubSubPeersOption) ([]peer.ID, error) {
	p.snapMu.Lock()
	if p.snaps != nil {
		defer p.snapMu.Unlock()
		p.calls++
		s := p.snaps[p.snapI]
		if p.snapI < len(p.snaps)-1 {
			p.snapI++
		}
		return append([]peer.ID{}, s...), nil
	}
	p.snapMu.Unlock()
	settings, err := options.PubSubPeersOptions(opts...)
	if err != nil {
		return nil, err
	}
	p.hub.mu.Lock()
	defer p.hub.mu.Unlock()
	var out []peer.ID
	for id, subs := range p.hub.subs[settings.Topic] {
		if id != p.id && len(subs) > 0 {
			out = append(out, id)
		}
	}
	return out, nil
}

func (p *fakePubSub) Publish(ctx context.Context, topic string, data []byte) error {
	p.hub.mu.Lock()
	var dst []*fakeSub
	for _, subs := range p.hub.subs[topic] {
		dst = append(dst, subs...)
	}
	p.hub.mu.Unlock()
	for _, s := range dst {
		s.push(&fakeMsg{from: p.id, data: append([]byte{}, data...)}) // like real pubsub: the publisher hears itself too
	}
	return nil
}

func (p *fakePubSub) Subscribe(ctx context.Context, topic string, _ ...options.PubSubSubscribeOption) (coreiface.PubSubSubscription, error) {
	s := newFakeSub()
	p.hub.mu.Lock()
	if need := p.hub.rendezvous; need > 1 {
		if p.hub.inSub == nil {
			p.hub.inSub = map[peer.ID]int{}
		}
		p.hub.inSub[p.id]++
		p.hub.mu.Unlock()
		world.WaitFor(func() bool {
			p.hub.mu.Lock()
			defer p.hub.mu.Unlock()
			return p.hub.inSub[p.id] >= need
		}, 40*time.Millisecond)
		time.Sleep(2 * time.Millisecond)
		p.hub.mu.Lock()
		p.hub.inSub[p.id]--
	}
	if p.hub.subs[topic] == nil {
		p.hub.subs[topic] = map[peer.ID][]*fakeSub{}
	}
	p.hub.subs[topic][p.id] = append(p.hub.subs[topic][p.id], s)
	p.hub.topics = append(p.hub.topics, topic)
	p.hub.mu.Unlock()
	return s, nil
}

func fakePeerID(i int) peer.ID {
	return peer.ID(fmt.Sprintf("verif-fake-peer-%02d", i))
}

// fakePeerIDShaped: ids of the shapes real key types give - 0: the short harness id, 1: an identity multihash of
// an Ed25519 public key ("12D3KooW...", 52 characters as text), 2: a SHA-256 multihash as RSA keys get ("Qm...",
// 46 characters). The two ends of a channel may well be of different shapes and lengths.
func fakePeerIDShaped(i, shape int) peer.ID {
	sum := sha256.Sum256([]byte(fmt.Sprintf("verif-fake-peer-%02d", i)))
	switch shape {
	case 1:
		return peer.ID(append([]byte{0x00, 0x24, 0x08, 0x01, 0x12, 0x20}, sum[:]...))
	case 2:
		return peer.ID(append([]byte{0x12, 0x20}, sum[:]...))
	}
	return fakePeerID(i)
}

// ---------------------------------------------------------------------------
// (a) pubsubcoreapi: membership diff and message filtering

type CaseC20a struct {
	Snaps [][]int `json:"snaps"` // successive membership snapshots (peer numbers 1..6)
	Msgs  []struct {
		From int `json:"from"` // 0 = self
		Size int `json:"size"`
	} `json:"msgs"`
}

func genC20a(rt *rapid.T) CaseC20a {
	var c CaseC20a
	n := rapid.IntRange(1, 8).Draw(rt, "nsnaps")
	for i := 0; i < n; i++ {
		c.Snaps = append(c.Snaps, rapid.SliceOfNDistinct(rapid.IntRange(1, 6), 0, 5, func(x int) int { return x }).Draw(rt, "snap"))
	}
	m := rapid.IntRange(0, 12).Draw(rt, "nmsgs")
	for i := 0; i < m; i++ {
		c.Msgs = append(c.Msgs, struct {
			From int `json:"from"`
			Size int `json:"size"`
		}{rapid.IntRange(0, 3).Draw(rt, "from"), rapid.SampledFrom([]int{0, 1, 5, 300, 70000}).Draw(rt, "size")})
	}
	return c
}

func execC20a(c CaseC20a) *Outcome {
	o := &Outcome{}
	ctx, cancel := context.WithCancel(context.Background())
	defer cancel()
	self := fakePeerID(0)
	api := &fakeAPI{id: self, hub: newHub()}
	for _, s := range c.Snaps {
		var ids []peer.ID
		for _, x := range s {
			ids = append(ids, fakePeerID(x))
		}
		api.snaps = append(api.snaps, ids)
	}
	ps := pubsubcoreapi.NewPubSub(api, self, time.Millisecond, zap.NewNop(), nil)
	topic, err := ps.TopicSubscribe(ctx, "t")
	if err != nil {
		return fail("TopicSubscribe: %v", err)
	}
	peersCh, err := topic.WatchPeers(ctx)
	if err != nil {
		return fail("WatchPeers: %v", err)
	}
	rejoin := false
	prev := map[int]bool{}
	seenGone := map[int]bool{}
	for step, s := range c.Snaps {
		cur := map[int]bool{}
		for _, x := range s {
			cur[x] = true
		}
		want := map[string]bool{}
		for x := range cur {
			if !prev[x] {
				want[fmt.Sprintf("join %d", x)] = true
				if seenGone[x] {
					rejoin = true
				}
			}
		}
		for x := range prev {
			if !cur[x] {
				want[fmt.Sprintf("leave %d", x)] = true
				seenGone[x] = true
			}
		}
		for len(want) > 0 {
			select {
			case e, ok := <-peersCh:
				if !ok {
					return fail("WatchPeers channel closed early")
				}
				k := ""
				switch ev := e.(type) {
				case *iface.EventPubSubJoin:
					k = "join " + peerNum(ev.Peer)
					if ev.Topic != "t" {
						return fail("join event for topic %q", ev.Topic)
					}
				case *iface.EventPubSubLeave:
					k = "leave " + peerNum(ev.Peer)
				default:
					return fail("unexpected event %T", e)
				}
				if !want[k] {
					return fail("membership snapshot %d (%v after %v): unexpected or repeated event %q, still expecting %v", step, s, keysInt(prev), k, keysStr(want))
				}
				delete(want, k)
			case <-time.After(20 * time.Second):
				return fail("membership snapshot %d (%v after %v): events %v were never reported", step, s, keysInt(prev), keysStr(want))
			}
		}
		prev = cur
	}
	// nothing more once the membership is stable: let the poller take a few more identical snapshots
	base := func() int { api.snapMu.Lock(); defer api.snapMu.Unlock(); return api.calls }()
	world.WaitFor(func() bool { api.snapMu.Lock(); defer api.snapMu.Unlock(); return api.calls >= base+3 }, 5*time.Second)
	select {
	case e := <-peersCh:
		return fail("an extra membership event %#v was reported although nothing changed", e)
	default:
	}

	// messages
	msgCh, err := topic.WatchMessages(ctx)
	if err != nil {
		return fail("WatchMessages: %v", err)
	}
	var want [][]byte
	for i, m := range c.Msgs {
		data := bytes.Repeat([]byte{byte('A' + i%26)}, m.Size)
		from := self
		if m.From != 0 {
			from = fakePeerID(m.From)
			want = append(want, data)
		}
		api.hub.mu.Lock()
		var dst []*fakeSub
		for _, subs := range api.hub.subs["t"] {
			dst = append(dst, subs...)
		}
		api.hub.mu.Unlock()
		if len(dst) != 1 {
			return fail("WatchMessages subscribed %d times to the topic", len(dst))
		}
		dst[0].push(&fakeMsg{from: from, data: data})
	}
	for i, w := range want {
		select {
		case m := <-msgCh:
			if !bytes.Equal(m.Content, w) {
				return fail("message %d delivered with different content (%d vs %d bytes)", i, len(m.Content), len(w))
			}
		case <-time.After(20 * time.Second):
			return fail("message %d of %d from a remote peer was never delivered", i, len(want))
		}
	}
	select {
	case m := <-msgCh:
		return fail("an extra message (%d bytes) was delivered: own messages must be filtered, remote ones delivered once", len(m.Content))
	case <-time.After(3 * time.Millisecond):
	}
	o.NonTrivial = rejoin
	if rejoin {
		o.Labels = append(o.Labels, "leave-and-rejoin")
	}
	return o
}

func peerNum(p peer.ID) string {
	s := string(p)
	if len(s) >= 2 {
		return fmt.Sprint(int(s[len(s)-2]-'0')*10 + int(s[len(s)-1]-'0'))
	}
	return s
}

func keysInt(m map[int]bool) []int {
	var out []int
	for k := range m {
		out = append(out, k)
	}
	return out
}

func keysStr(m map[string]bool) []string {
	var out []string
	for k := range m {
		out = append(out, k)
	}
	return out
}

// ---------------------------------------------------------------------------
// (b) oneonone: pairwise channel over a shared scripted pubsub

type SendC20 struct {
	From int `json:"from"` // 0 or 1
	Size int `json:"size"`
	// Trunc > 0 (directchannel only): the sender dies mid-frame — the header announces Size bytes, the last
	// Trunc of them are never written and the stream is closed; nothing of that frame may be delivered
	Trunc int `json:"trunc,omitempty"`
}

type CaseC20b struct {
	IDs    [2]int    `json:"ids"`
	Shapes [2]int    `json:"shapes,omitempty"` // see fakePeerIDShaped
	Sends  []SendC20 `json:"sends"`
	// Overlap: 2 or 3 Connect calls per end for the same peer start at the same time (two or three stores of
	// one instance meeting the same peer), 0 = one call per end
	Overlap int `json:"overlap,omitempty"`
}

func genC20b(rt *rapid.T) CaseC20b {
	var c CaseC20b
	c.IDs[0] = rapid.IntRange(1, 40).Draw(rt, "id0")
	c.IDs[1] = rapid.IntRange(41, 80).Draw(rt, "id1")
	if rapid.Bool().Draw(rt, "swap") {
		c.IDs[0], c.IDs[1] = c.IDs[1], c.IDs[0]
	}
	c.Shapes[0] = rapid.IntRange(0, 2).Draw(rt, "shape0")
	c.Shapes[1] = rapid.IntRange(0, 2).Draw(rt, "shape1")
	n := rapid.IntRange(1, 10).Draw(rt, "nsends")
	for i := 0; i < n; i++ {
		c.Sends = append(c.Sends, SendC20{From: rapid.IntRange(0, 1).Draw(rt, "from"), Size: rapid.SampledFrom([]int{0, 1, 100, 16384, 65536}).Draw(rt, "size")})
	}
	c.Overlap = rapid.SampledFrom([]int{0, 2, 2, 3}).Draw(rt, "overlap")
	return c
}

func execC20b(c CaseC20b) *Outcome {
	o := &Outcome{}
	ctx, cancel := context.WithCancel(context.Background())
	defer cancel()
	h := newHub()
	ids := [2]peer.ID{fakePeerIDShaped(c.IDs[0], c.Shapes[0]), fakePeerIDShaped(c.IDs[1], c.Shapes[1])}
	if len(ids[0].String()) != len(ids[1].String()) {
		o.Labels = append(o.Labels, "ids-of-different-length")
	}
	ems := [2]*collectEmitter{{}, {}}
	var chs [2]iface.DirectChannel
	for i := 0; i < 2; i++ {
		ch, err := oneonone.NewChannelFactory(&fakeAPI{id: ids[i], hub: h})(ctx, ems[i], nil)
		if err != nil {
			return fail("factory: %v", err)
		}
		chs[i] = ch
		defer ch.Close()
	}
	// both ends connect to each other (concurrently, as two stores would)
	calls := 1
	if c.Overlap > 1 {
		calls = c.Overlap
		h.mu.Lock()
		h.rendezvous = calls
		h.mu.Unlock()
	}
	errs := make(chan error, 2*calls)
	for i := 0; i < 2; i++ {
		for k := 0; k < calls; k++ {
			go func(i int) {
				// (the subscription lives as long as the context given to Connect: callers pass their store's context)
				errs <- chs[i].Connect(ctx, ids[1-i])
			}(i)
		}
	}
	connected := 0
	timeout := time.After(15 * time.Second)
	tick := time.NewTicker(20 * time.Millisecond)
	defer tick.Stop()
	topicsNow := func() []string {
		h.mu.Lock()
		defer h.mu.Unlock()
		return append([]string{}, h.topics...)
	}
	distinct := func(ts []string) []string {
		seen := map[string]bool{}
		var out []string
		for _, t := range ts {
			if !seen[t] {
				seen[t] = true
				out = append(out, t)
			}
		}
		return out
	}
	subscribedEnds := func() int {
		h.mu.Lock()
		defer h.mu.Unlock()
		ends := map[peer.ID]bool{}
		for _, m := range h.subs {
			for id, l := range m {
				if len(l) > 0 {
					ends[id] = true
				}
			}
		}
		return len(ends)
	}
wait:
	for connected < 2*calls {
		select {
		case err := <-errs:
			if err != nil {
				return fail("Connect failed although both ends subscribed: %v", err)
			}
			connected++
		case <-tick.C:
			if t := distinct(topicsNow()); len(t) > 1 {
				return fail("the two ends derived different channel names: %v", t)
			}
		case <-timeout:
			break wait
		}
	}
	topics := distinct(topicsNow())
	if len(topics) > 1 {
		return fail("the two ends derived different channel names: %v", topics)
	}
	if connected < 2*calls {
		if subscribedEnds() != 2 {
			return &Outcome{Inconclusive: true}
		}
		return fail("both ends subscribed to %q but %d of %d Connect calls did not return within 15 s", topics[0], 2*calls-connected, 2*calls)
	}
	h.mu.Lock()
	h.rendezvous = 0
	h.mu.Unlock()
	var want [2][][]byte
	both := map[int]bool{}
	for i, s := range c.Sends {
		data := bytes.Repeat([]byte{byte('a' + i%26)}, s.Size)
		if err := chs[s.From].Send(ctx, ids[1-s.From], data); err != nil {
			return fail("Send failed: %v", err)
		}
		want[1-s.From] = append(want[1-s.From], data)
		both[s.From] = true
	}
	for i := 0; i < 2; i++ {
		if !world.WaitFor(func() bool { return ems[i].count() >= len(want[i]) }, 20*time.Second) {
			return fail("end %d received %d of %d payloads", i, ems[i].count(), len(want[i]))
		}
	}
	time.Sleep(3 * time.Millisecond)
	for i := 0; i < 2; i++ {
		ems[i].mu.Lock()
		got := ems[i].got
		if len(got) != len(want[i]) {
			ems[i].mu.Unlock()
			return fail("end %d received %d payloads, %d were sent to it (own messages must not come back)", i, len(got), len(want[i]))
		}
		for k := range got {
			if !bytes.Equal(got[k].Payload, want[i][k]) {
				ems[i].mu.Unlock()
				return fail("end %d: payload %d differs from what was sent", i, k)
			}
			if got[k].Peer != ids[1-i] {
				ems[i].mu.Unlock()
				return fail("end %d: payload %d attributed to %q, the sender is %q", i, k, got[k].Peer, ids[1-i])
			}
		}
		ems[i].mu.Unlock()
	}
	o.NonTrivial = len(both) == 2
	if calls > 1 {
		o.Labels = append(o.Labels, "overlapping-connects")
	}
	big := false
	for _, s := range c.Sends {
		if s.Size >= 16384 {
			big = true
		}
	}
	if big {
		o.Labels = append(o.Labels, "payload>=16KiB")
	}
	return o
}

// ---------------------------------------------------------------------------
// (c) directchannel: payload sizes on the varint and frame-limit boundaries, both directions

type CaseC20c struct {
	Sends []SendC20 `json:"sends"`
}

var c20Sizes = []int{0, 1, 127, 128, 16383, 16384, 65535, directchannel.DelimitedReadMaxSize - 1, directchannel.DelimitedReadMaxSize, directchannel.DelimitedReadMaxSize + 1}

func genC20c(rt *rapid.T) CaseC20c {
	var c CaseC20c
	// (one case in five is a long series dominated by refused frames: a resource leaked per refusal runs out only then)
	n := rapid.OneOf(rapid.IntRange(1, 6), rapid.IntRange(1, 6), rapid.IntRange(1, 6), rapid.IntRange(1, 6), rapid.IntRange(11, 16)).Draw(rt, "nsends")
	for i := 0; i < n; i++ {
		s := SendC20{From: rapid.IntRange(0, 1).Draw(rt, "from"), Size: rapid.SampledFrom(c20Sizes).Draw(rt, "size")}
		if n >= 9 && rapid.IntRange(0, 5).Draw(rt, "refused") != 0 {
			s.Size = directchannel.DelimitedReadMaxSize + 1
			s.From = n % 2 // all towards the same receiver
		}
		if s.Size > 0 && s.Size <= directchannel.DelimitedReadMaxSize && rapid.IntRange(0, 4).Draw(rt, "dies") == 0 {
			s.Trunc = rapid.OneOf(rapid.Just(1), rapid.Just(s.Size), rapid.IntRange(1, s.Size)).Draw(rt, "trunc")
		}
		c.Sends = append(c.Sends, s)
	}
	return c
}

func execC20c(c CaseC20c) *Outcome {
	o := &Outcome{}
	ctx, cancel := context.WithCancel(context.Background())
	defer cancel()
	mn := mocknet.New()
	defer mn.Close()
	var hosts [2]host.Host
	var chs [2]iface.DirectChannel
	ems := [2]*collectEmitter{{}, {}}
	for i := 0; i < 2; i++ {
		hst, err := mn.GenPeer()
		if err != nil {
			return fail("harness: %v", err)
		}
		hosts[i] = hst
		ch, err := directchannel.InitDirectChannelFactory(zap.NewNop(), hst)(ctx, ems[i], nil)
		if err != nil {
			return fail("harness: %v", err)
		}
		chs[i] = ch
		defer ch.Close()
	}
	if err := mn.LinkAll(); err != nil {
		return fail("harness: %v", err)
	}
	if err := mn.ConnectAllButSelf(); err != nil {
		return fail("harness: %v", err)
	}
	var want [2][][]byte
	over, died := false, false
	for i, s := range c.Sends {
		data := bytes.Repeat([]byte{byte('a' + i%26)}, s.Size)
		if err := chs[s.From].Connect(ctx, hosts[1-s.From].ID()); err != nil {
			return fail("Connect: %v", err)
		}
		if s.Trunc > 0 && s.Trunc <= s.Size && s.Size <= directchannel.DelimitedReadMaxSize {
			// the two writes of Send, the second one cut short by the sender's death
			wrote := make(chan error, 1)
			from, to, size, trunc := s.From, 1-s.From, s.Size, s.Trunc
			go func() {
				st, err := hosts[from].NewStream(ctx, hosts[to].ID(), directchannel.PROTOCOL)
				if err != nil {
					wrote <- err
					return
				}
				lb := make([]byte, binary.MaxVarintLen64)
				_, _ = st.Write(lb[:binary.PutUvarint(lb, uint64(size))])
				if size-trunc > 0 {
					_, _ = st.Write(data[:size-trunc])
				}
				_ = st.Close()
				wrote <- nil
			}()
			select {
			case err := <-wrote:
				if err != nil {
					return fail("harness: cannot open stream: %v", err)
				}
			case <-time.After(3 * time.Second):
				// the receiver neither reads nor refuses: the valid sends that follow decide
			}
			died = true
			continue
		}
		if s.Size > directchannel.DelimitedReadMaxSize {
			over = true // refused by the receiver (or by the sender): must not be delivered
			// (sent from a goroutine with a bound: a receiver that neither reads nor refuses must not park the
			// harness - whether it still handles valid traffic is decided by the valid sends that follow)
			sent := make(chan struct{})
			from, to := s.From, 1-s.From
			go func() { _ = chs[from].Send(ctx, hosts[to].ID(), data); close(sent) }()
			select {
			case <-sent:
			case <-time.After(3 * time.Second):
			}
			continue
		}
		var err error
		if gerr := guarded(fmt.Sprintf("a Send of %d bytes (within the limit)", s.Size), func() { err = chs[s.From].Send(ctx, hosts[1-s.From].ID(), data) }); gerr != nil {
			cancel()
			return fail("%v (the receiver no longer reads incoming streams)", gerr)
		}
		if err != nil {
			return fail("Send of %d bytes failed: %v", s.Size, err)
		}
		want[1-s.From] = append(want[1-s.From], data)
		// frames travel on separate streams: wait for this one so that the expected order is defined
		to := 1 - s.From
		n := len(want[to])
		if !world.WaitFor(func() bool { return ems[to].count() >= n }, 30*time.Second) {
			return fail("a payload of %d bytes (limit %d) was not delivered", s.Size, directchannel.DelimitedReadMaxSize)
		}
	}
	// a following small payload is still delivered in both directions
	for i := 0; i < 2; i++ {
		data := []byte(fmt.Sprintf("tail-%d", i))
		var serr error
		if gerr := guarded("a small Send after the generated traffic", func() { serr = chs[i].Send(ctx, hosts[1-i].ID(), data) }); gerr != nil {
			cancel()
			return fail("%v (the receiver no longer reads incoming streams)", gerr)
		}
		if serr != nil {
			return fail("Send after the generated traffic failed: %v", serr)
		}
		want[1-i] = append(want[1-i], data)
		n := len(want[1-i])
		if !world.WaitFor(func() bool { return ems[1-i].count() >= n }, 30*time.Second) {
			return fail("a small payload sent after the generated traffic was not delivered")
		}
	}
	time.Sleep(3 * time.Millisecond)
	for i := 0; i < 2; i++ {
		ems[i].mu.Lock()
		got := ems[i].got
		if len(got) != len(want[i]) {
			ems[i].mu.Unlock()
			return fail("host %d received %d payloads, expected %d (oversized ones refused, the others once each)", i, len(got), len(want[i]))
		}
		for k := range got {
			if !bytes.Equal(got[k].Payload, want[i][k]) {
				ems[i].mu.Unlock()
				return fail("host %d: payload %d (%d bytes) differs from what was sent (%d bytes)", i, k, len(got[k].Payload), len(want[i][k]))
			}
			if got[k].Peer != hosts[1-i].ID() {
				ems[i].mu.Unlock()
				return fail("host %d: payload %d attributed to the wrong peer", i, k)
			}
		}
		ems[i].mu.Unlock()
	}
	o.NonTrivial = true
	if over {
		o.Labels = append(o.Labels, "oversized-frame")
	}
	if died {
		o.Labels = append(o.Labels, "sender-died-mid-frame")
	}
	return o
}

func TestC20CoreAPI(t *testing.T)  { runCheck(t, "C20", genC20a, execC20a) }
func TestC20OneOnOne(t *testing.T) { runCheck(t, "C20", genC20b, execC20b) }
func TestC20Direct(t *testing.T)   { runCheck(t, "C20", genC20c, execC20c) }
