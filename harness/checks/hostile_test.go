package checks

import (
	"context"
	"encoding/json"
	"fmt"
	"strings"
	"sync"
	"time"

	ipfslog "berty.tech/go-ipfs-log"
	"berty.tech/go-ipfs-log/entry"
	"berty.tech/go-ipfs-log/identityprovider"
	"berty.tech/go-ipfs-log/io/cbor"
	orbitdb "berty.tech/go-orbit-db"
	"berty.tech/go-orbit-db/accesscontroller"
	"berty.tech/go-orbit-db/iface"
	"berty.tech/go-orbit-db/stores"
	"berty.tech/go-orbit-db/stores/basestore"
	"berty.tech/go-orbit-db/stores/operation"
	cid "github.com/ipfs/go-cid"
	"github.com/libp2p/go-libp2p/p2p/host/eventbus"
	"verif/harness/model"
	"verif/harness/world"
)

// hostileEnv is the shared scene of the hostile-input checks (C03, C04, C10):
// authors (authorised, replication off, used to make honest entries), one
// victim replica with replication on, and an attacker peer outside the write
// list whose node stores the hostile blocks.
type hostileEnv struct {
	cl      *world.Cluster
	typ     string
	A       int // authors are peers 0..A-1
	V       int // victim
	X       int // attacker
	C       int // colluder: authorised identity that never writes through the API; signs crafted entries
	ctime   int
	tr      *tracker
	cnt     int
	hostile map[string]string // hash -> description, must never be merged
	crafted map[string]*entry.Entry

	evMu  sync.Mutex
	evBad string // first replicated event that announced an entry the store did not hold at that moment
	evN   int    // replicated events seen by the watcher
}

// watchReplicated subscribes to the victim's replicated events and checks, at
// the moment each one is received, that every entry it announces is in the
// victim's log (C16: an event is never ahead of, or beside, the state it announces).
func (env *hostileEnv) watchReplicated() (stop func(), err error) {
	v := env.victim()
	sub, err := v.EventBus().Subscribe(new(stores.EventReplicated), eventbus.BufSize(256))
	if err != nil {
		return nil, err
	}
	done := make(chan struct{})
	go func() {
		defer close(done)
		for ev := range sub.Out() {
			r, ok := ev.(stores.EventReplicated)
			if !ok {
				continue
			}
			env.evMu.Lock()
			env.evN++
			for _, e := range r.Entries {
				if _, held := v.OpLog().Get(e.GetHash()); !held && env.evBad == "" {
					env.evBad = fmt.Sprintf("a replicated event announced entry %s which the store does not hold (log length %d, event says %d)",
						short(e.GetHash().String()), v.OpLog().Len(), r.LogLength)
				}
			}
			env.evMu.Unlock()
		}
	}()
	return func() { _ = sub.Close(); <-done }, nil
}

type hostileOpts struct {
	Type         string
	Authors      int
	VictimWrites bool   // victim is in the write list
	WriteList    []int  // nil: authors (+victim); explicit peer indices otherwise; -1 = "*"
	DefaultAC    bool   // no access-controller options at creation: creator only
	ACType       string // "" (ipfs) | "simple"
	LateX        bool   // the attacker does not open the database during set-up (the scenario opens it itself)
	PriorLegit   bool   // (with SharedOpts) the attacker first writes a legitimate entry to the wildcard sibling and the victim replicates it
	SharedOpts   bool   // the victim first opens a sibling database with the wildcard list, then this one, with the same options value
}

func newHostileEnv(ctx context.Context, o hostileOpts) (*hostileEnv, error) {
	A := o.Authors
	N := A + 3
	writers := o.WriteList
	if writers == nil {
		for i := 0; i < A; i++ {
			writers = append(writers, i)
		}
		if o.VictimWrites {
			writers = append(writers, A)
		}
		writers = append(writers, A+2)
	}
	no := false
	openOn := []int{}
	for i := 1; i < A; i++ {
		openOn = append(openOn, i)
	}
	cl, err := world.NewCluster(ctx, world.ClusterOpts{N: N, Type: o.Type, Replicate: &no, Writers: writers, OpenOn: openOn, DefaultAC: o.DefaultAC, ACType: o.ACType})
	if err != nil {
		return nil, err
	}
	env := &hostileEnv{cl: cl, typ: o.Type, A: A, V: A, X: A + 1, C: A + 2, tr: newTracker(), hostile: map[string]string{}, crafted: map[string]*entry.Entry{}}
	// victim: replication on
	vopts := &orbitdb.CreateDBOptions{}
	if o.SharedOpts {
		pub, err := cl.W.Peers[0].DB.Create(ctx, "public-sibling", o.Type, &orbitdb.CreateDBOptions{Replicate: &no,
			AccessController: &accesscontroller.CreateAccessControllerOptions{Access: map[string][]string{"write": {"*"}}}})
		if err != nil {
			cl.Close()
			return nil, err
		}
		vpub, err := cl.W.Peers[env.V].DB.Open(ctx, pub.Address().String(), vopts)
		if err != nil {
			cl.Close()
			return nil, err
		}
		if o.PriorLegit {
			// the attacker is an ordinary, legitimate writer of the public sibling, and the victim has seen it there
			if err := vpub.Load(ctx, -1); err != nil {
				cl.Close()
				return nil, err
			}
			xpub, err := cl.W.Peers[env.X].DB.Open(ctx, pub.Address().String(), &orbitdb.CreateDBOptions{Replicate: &no})
			if err != nil {
				cl.Close()
				return nil, err
			}
			if err := xpub.Load(ctx, -1); err != nil {
				cl.Close()
				return nil, err
			}
			h, err := writeReturningHash(ctx, xpub, o.Type, 0, 3, 4242)
			if err != nil {
				cl.Close()
				return nil, fmt.Errorf("the attacker cannot write to the wildcard sibling: %v", err)
			}
			hs, err := cloneHeads(world.Heads(xpub))
			if err != nil {
				cl.Close()
				return nil, err
			}
			if err := vpub.Sync(ctx, hs); err != nil {
				cl.Close()
				return nil, err
			}
			if !world.WaitFor(func() bool { return world.Has(vpub, h) && cl.W.Quiescent([]iface.Store{vpub}, nil) }, claimTimeout) {
				cl.Close()
				return nil, world.ErrInconclusive
			}
		}
	}
	s, err := cl.W.Peers[env.V].DB.Open(ctx, cl.Addr, cl.OpenOpts(vopts))
	if err != nil {
		cl.Close()
		return nil, err
	}
	cl.Stores[env.V] = s
	if err := s.Load(ctx, -1); err != nil {
		cl.Close()
		return nil, err
	}
	if o.LateX {
		return env, nil
	}
	// attacker: opens the database too (anyone can), replication off
	sx, err := cl.W.Peers[env.X].DB.Open(ctx, cl.Addr, cl.OpenOpts(&orbitdb.CreateDBOptions{Replicate: &no}))
	if err != nil {
		cl.Close()
		return nil, err
	}
	cl.Stores[env.X] = sx
	return env, nil
}

func (env *hostileEnv) victim() iface.Store { return env.cl.Stores[env.V] }

// opPayload builds the payload of an operation of the store's type.
func opPayload(typ string, key string, val []byte) ([]byte, model.Op) {
	switch typ {
	case "eventlog":
		b, _ := operation.NewOperation(nil, "ADD", val).Marshal()
		return b, model.Op{Kind: "ADD", Val: val}
	case "keyvalue":
		b, _ := operation.NewOperation(&key, "PUT", val).Marshal()
		return b, model.Op{Kind: "PUT", Key: key, Val: val}
	default:
		d := map[string]interface{}{"_id": key, "data": string(val)}
		db := docBytes(d)
		b, _ := operation.NewOperation(&key, "PUT", db).Marshal()
		return b, model.Op{Kind: "PUT", Key: key, Val: db}
	}
}

// honestWrite makes author w write one entry through the public API.
func (env *hostileEnv) honestWrite(ctx context.Context, w int, key int) (string, error) {
	s := env.cl.Stores[w]
	before := hashSetOf(s)
	op, err := writeAny(ctx, s, env.typ, key, 3, env.cnt)
	env.cnt++
	if err != nil {
		return "", err
	}
	if err := env.tr.noteWrites(s, w, before, []model.Op{op}); err != nil {
		return "", err
	}
	return env.tr.seq[len(env.tr.seq)-1], nil
}

// craft creates an entry signed by peer signer's instance identity, stored on
// that peer's node, with the given links and clock time.
func (env *hostileEnv) craft(ctx context.Context, signer int, logID string, payload []byte, next []cid.Cid, t int) (*entry.Entry, error) {
	return env.craftRefs(ctx, signer, logID, payload, next, []cid.Cid{}, t)
}

func (env *hostileEnv) craftRefs(ctx context.Context, signer int, logID string, payload []byte, next, refs []cid.Cid, t int) (*entry.Entry, error) {
	p := env.cl.W.Peers[signer]
	id := p.DB.Identity()
	if next == nil {
		next = []cid.Cid{}
	}
	e, err := entry.CreateEntry(ctx, p.API, id, &entry.Entry{
		LogID: logID, Payload: payload, Next: next, Refs: refs,
		Clock: entry.NewLamportClock(id.PublicKey, t),
	}, nil)
	if err != nil {
		return nil, err
	}
	return e.(*entry.Entry), nil
}

// craftValid creates a valid entry signed by the colluder with a clock time
// above everything seen so far (keeps (time,id) pairs unique).
func (env *hostileEnv) craftValid(ctx context.Context, payload []byte, next []cid.Cid) (*entry.Entry, error) {
	return env.craftValidRefs(ctx, payload, next, []cid.Cid{})
}

func (env *hostileEnv) craftValidRefs(ctx context.Context, payload []byte, next, refs []cid.Cid) (*entry.Entry, error) {
	t := env.ctime
	for _, e := range env.tr.ents {
		if e.Time > t {
			t = e.Time
		}
	}
	env.ctime = t + 1
	return env.craftRefs(ctx, env.C, env.cl.Addr, payload, next, refs, env.ctime)
}

// rehash stores e's current content on peer p's node and sets its hash.
func (env *hostileEnv) rehash(ctx context.Context, p int, e *entry.Entry) error {
	h, err := e.ToMultihash(ctx, env.cl.W.Peers[p].API, nil)
	if err != nil {
		return err
	}
	e.Hash = h
	return nil
}

// contentHash computes the hash of e's content without changing e.
func (env *hostileEnv) contentHash(ctx context.Context, e *entry.Entry) (cid.Cid, error) {
	c := *e
	return c.ToMultihash(ctx, env.cl.W.Peers[env.X].API, nil)
}

// sigOK reports whether e's signature verifies against its key and content.
func (env *hostileEnv) sigOK(e *entry.Entry) bool {
	io, err := cbor.IO(&entry.Entry{}, &entry.LamportClock{})
	if err != nil {
		return false
	}
	return e.Verify(env.cl.W.Peers[0].DB.Identity().Provider, io) == nil
}

// signedBy reports whether e's signature verifies under identity id's public key.
func signedBy(e *entry.Entry, id *identityprovider.Identity) bool {
	if string(e.Key) != string(id.PublicKey) {
		return false
	}
	return true
}

// registerCrafted tells the tracker about an honest (valid, authorised) entry
// made with craft(), so that order/replay models include it if it is merged.
func (env *hostileEnv) registerCrafted(e *entry.Entry, author int, op model.Op) {
	h := e.Hash.String()
	env.crafted[h] = cloneEntryForRef(e)
	env.tr.ents[h] = entOf(e)
	env.tr.ops[h] = op
	env.tr.author[h] = author
	past := map[string]bool{}
	for _, n := range e.Next {
		if _, ok := env.tr.ents[n.String()]; ok {
			past[n.String()] = true
			for k := range env.tr.past[n.String()] {
				past[k] = true
			}
		}
	}
	env.tr.past[h] = past
	env.tr.seq = append(env.tr.seq, h)
}

// deliver announces entries as heads to the victim by the given route.
func (env *hostileEnv) deliver(ctx context.Context, route string, heads []*entry.Entry) error {
	var hs []ipfslog.Entry
	for _, h := range heads {
		hs = append(hs, h)
	}
	cl := env.cl
	switch route {
	case "sync":
		cp, err := cloneHeads(hs)
		if err != nil {
			return err
		}
		_ = env.victim().Sync(ctx, cp) // an error is an accepted outcome for a bad announcement
		return nil
	case "topic":
		msg, err := json.Marshal(&iface.MessageExchangeHeads{Address: cl.Addr, Heads: heads})
		if err != nil {
			return err
		}
		if !cl.W.InjectTopic(env.V, cl.Addr, msg) {
			return fmt.Errorf("victim not subscribed")
		}
		return nil
	case "direct":
		msg, err := json.Marshal(&iface.MessageExchangeHeads{Address: cl.Addr, Heads: heads})
		if err != nil {
			return err
		}
		if !cl.W.InjectDirect(env.X, env.V, msg) {
			return fmt.Errorf("victim has no direct channel")
		}
		return nil
	case "loadmore":
		// the application hands the store entries known by their address only (LoadMoreFrom)
		var byHash []ipfslog.Entry
		for _, h := range heads {
			byHash = append(byHash, &entry.Entry{Hash: h.Hash})
		}
		world.LoadMoreFromAsync(ctx, env.victim(), byHash)
		return nil
	case "snapqueue":
		// the addresses sit in the replication queue recorded with a snapshot (a snapshot taken while they
		// were being fetched); loading that snapshot resumes the queue
		v := env.victim()
		if v.OpLog().Len() == 0 {
			return env.deliver(ctx, "loadmore", heads)
		}
		if _, err := basestore.SaveSnapshot(ctx, v); err != nil {
			return env.deliver(ctx, "loadmore", heads)
		}
		var q []cid.Cid
		for _, h := range heads {
			q = append(q, h.Hash)
		}
		qb, err := json.Marshal(q)
		if err != nil {
			return err
		}
		cache := cl.W.Peers[env.V].Disk.Store(world.CachePath("/verif-disk", v.Address()))
		if err := cache.Put(ctx, dsKey("queue"), qb); err != nil {
			return err
		}
		if err := v.LoadFromSnapshot(ctx); err != nil {
			return fmt.Errorf("LoadFromSnapshot with a recorded queue failed: %v", err)
		}
		return nil
	}
	return fmt.Errorf("unknown route %q", route)
}

// entryObj returns the real entry object of a tracked honest entry.
func (env *hostileEnv) entryObj(h string) *entry.Entry {
	for i := 0; i <= env.V; i++ {
		if s := env.cl.Stores[i]; s != nil {
			if e, ok := s.OpLog().Get(mustCid(h)); ok {
				return e.(*entry.Entry)
			}
		}
	}
	return nil
}

// honestObj returns the authors' own copy of an honest entry (never the victim's).
func (env *hostileEnv) honestObj(h string) *entry.Entry {
	if e, ok := env.crafted[h]; ok {
		return e
	}
	for i := 0; i < env.A; i++ {
		if s := env.cl.Stores[i]; s != nil {
			if e, ok := s.OpLog().Get(mustCid(h)); ok {
				return e.(*entry.Entry)
			}
		}
	}
	return nil
}

// canary: an honest new entry by author 0 announced by route; waits until the
// victim shows it and rests. The route has then provably processed what was
// sent before it.
func (env *hostileEnv) canary(ctx context.Context, route string) error {
	h, err := env.honestWrite(ctx, 0, 3)
	if err != nil {
		return fmt.Errorf("canary write failed: %v", err)
	}
	e := env.entryObj(h)
	if e == nil {
		return fmt.Errorf("harness: canary entry not found")
	}
	if err := env.deliver(ctx, route, []*entry.Entry{e}); err != nil {
		return err
	}
	v := env.victim()
	return env.cl.W.WaitClaim("the honest canary entry announced after the hostile input becomes visible", func() bool {
		return world.Has(v, h) && env.cl.W.Quiescent([]iface.Store{v}, nil)
	}, []iface.Store{v}, nil, claimTimeout)
}

// victimClean checks that no hostile hash is anywhere in the victim and that
// what it shows is the model replay of the honest entries it holds.
func (env *hostileEnv) victimClean() error {
	v := env.victim()
	for _, e := range v.OpLog().GetEntries().Slice() {
		if d, bad := env.hostile[e.GetHash().String()]; bad {
			return fmt.Errorf("hostile entry %s (%s) is in the replica's log", short(e.GetHash().String()), d)
		}
	}
	for _, h := range world.Hashes(v) {
		if d, bad := env.hostile[h]; bad {
			return fmt.Errorf("hostile entry %s (%s) is listed by Values()", short(h), d)
		}
	}
	for _, h := range world.HeadHashes(v) {
		if d, bad := env.hostile[h]; bad {
			return fmt.Errorf("hostile entry %s (%s) is a head of the replica", short(h), d)
		}
	}
	// an honest address must hold the honest content
	for _, e := range v.OpLog().GetEntries().Slice() {
		h := e.GetHash().String()
		ref := env.honestObj(h)
		if ref == nil {
			continue
		}
		if string(e.GetPayload()) != string(ref.Payload) || e.GetClock().GetTime() != ref.Clock.Time ||
			string(e.GetClock().GetID()) != string(ref.Clock.ID) || e.GetLogID() != ref.LogID || len(e.GetNext()) != len(ref.Next) {
			return fmt.Errorf("the replica holds, under the address %s of an honest entry, an entry with different content", short(h))
		}
	}
	order, err := env.tr.checkOrder(v)
	if err != nil {
		return err
	}
	view, err := viewOf(v, env.typ)
	if err != nil {
		return err
	}
	if what := hostileVisible(v, env.typ); what != "" {
		return fmt.Errorf("hostile payload is visible in the replica's view: %s", what)
	}
	// view == replay of the honest entries held
	if env.typ != "eventlog" {
		want := model.Replay(env.tr.opsIn(order))
		var exp []string
		for k, val := range want {
			if env.typ == "keyvalue" {
				exp = append(exp, fmt.Sprintf("%s=%x", k, sha(val)))
			} else {
				var d map[string]interface{}
				_ = json.Unmarshal(val, &d)
				b, _ := json.Marshal(d)
				exp = append(exp, fmt.Sprintf("%x", sha(b)))
			}
		}
		sortStrings(exp)
		if !eqStrings(view, exp) {
			return fmt.Errorf("the replica's view %v is not the replay of the honest entries it holds %v", view, exp)
		}
	}
	return nil
}

// victimRestartClean closes the victim's instance, starts a new one on the same disk, reopens the
// database and loads it: what the replica accepted before must still load (no entry it refused may
// stand in the way), everything it held is there again, and it is still clean.
func (env *hostileEnv) victimRestartClean(ctx context.Context) error {
	held := hashSetOf(env.victim())
	// (offline: what the replica held must come back from its own storage, not from its peers)
	pv := env.cl.W.Peers[env.V]
	var wasLinked []int
	for i := range env.cl.W.Peers {
		if i != env.V && env.cl.W.Linked(env.V, i) {
			wasLinked = append(wasLinked, i)
			env.cl.W.Cut(env.V, i)
		}
	}
	pv.Offline = true
	defer func() {
		pv.Offline = false
		for _, i := range wasLinked {
			env.cl.W.Heal(env.V, i)
		}
	}()
	if err := env.cl.Reopen(ctx, env.V); err != nil {
		return fmt.Errorf("after a restart the replica cannot load its log any more (it held %d entries): %v", len(held), err)
	}
	if !env.cl.W.WaitQuiescent([]iface.Store{env.victim()}, nil, claimTimeout) {
		return world.ErrInconclusive
	}
	have := hashSetOf(env.victim())
	for h := range held {
		if !have[h] {
			return fmt.Errorf("after a restart and Load(-1) the replica holds %d of the %d entries it held before (%s is missing)", countIn(have, held), len(held), short(h))
		}
	}
	return env.victimClean()
}

const hostileMarker = "HOSTILE"

// hostileVisible looks for the marker key/value of crafted hostile operations in the view.
func hostileVisible(s iface.Store, typ string) string {
	ctx := context.Background()
	switch typ {
	case "eventlog":
		m1 := -1
		ops, _ := s.(iface.EventLogStore).List(ctx, &iface.StreamOptions{Amount: &m1})
		for _, op := range ops {
			if strings.Contains(string(op.GetValue()), hostileMarker) {
				return "listed value " + string(op.GetValue())
			}
		}
	case "keyvalue":
		for k, v := range s.(iface.KeyValueStore).All() {
			if strings.Contains(k, hostileMarker) || strings.Contains(string(v), hostileMarker) {
				return "key " + k
			}
		}
	default:
		docs, _ := s.(iface.DocumentStore).Query(ctx, func(interface{}) (bool, error) { return true, nil })
		for _, d := range docs {
			b, _ := json.Marshal(d)
			if strings.Contains(string(b), hostileMarker) {
				return "document " + string(b)
			}
		}
	}
	return ""
}

var _ = time.Second

func cloneEntryForRef(e *entry.Entry) *entry.Entry {
	c := *e
	if e.Clock != nil {
		cl := *e.Clock
		c.Clock = &cl
	}
	return &c
}
