package checks

import (
	"bytes"
	"context"
	"fmt"
	"sync"
	"testing"
	"time"

	"berty.tech/go-orbit-db/iface"
	"berty.tech/go-orbit-db/pubsub/pubsubraw"
	p2ppubsub "github.com/libp2p/go-libp2p-pubsub"
	mocknet "github.com/libp2p/go-libp2p/p2p/net/mock"
	"go.uber.org/zap"
	"pgregory.net/rapid"
	"verif/harness/world"
)

// C20 (d) — pubsubraw over real go-libp2p-pubsub (floodsub router) on a mocknet.

type CaseC20d struct {
	N     int       `json:"n"` // hosts (2-3)
	Sends []SendC20 `json:"sends"`
}

func genC20d(rt *rapid.T) CaseC20d {
	c := CaseC20d{N: rapid.IntRange(2, 3).Draw(rt, "n")}
	m := rapid.IntRange(1, 8).Draw(rt, "nsends")
	for i := 0; i < m; i++ {
		c.Sends = append(c.Sends, SendC20{From: rapid.IntRange(0, c.N-1).Draw(rt, "from"), Size: rapid.SampledFrom([]int{0, 1, 100, 16384, 200000}).Draw(rt, "size")})
	}
	return c
}

func execC20d(c CaseC20d) *Outcome {
	o := &Outcome{}
	ctx, cancel := context.WithCancel(context.Background())
	defer cancel()
	mn := mocknet.New()
	defer mn.Close()
	type node struct {
		topic iface.PubSubTopic
		mu    sync.Mutex
		got   [][]byte
		joins map[string]int
	}
	nodes := make([]*node, c.N)
	ids := make([]string, c.N)
	for i := 0; i < c.N; i++ {
		h, err := mn.GenPeer()
		if err != nil {
			return fail("harness: %v", err)
		}
		ps, err := p2ppubsub.NewFloodSub(ctx, h)
		if err != nil {
			return fail("harness: floodsub: %v", err)
		}
		ids[i] = h.ID().String()
		t, err := pubsubraw.NewPubSub(ps, h.ID(), zap.NewNop(), nil).TopicSubscribe(ctx, "verif-topic")
		if err != nil {
			return fail("TopicSubscribe: %v", err)
		}
		nodes[i] = &node{topic: t, joins: map[string]int{}}
	}
	if err := mn.LinkAll(); err != nil {
		return fail("harness: %v", err)
	}
	for i, nd := range nodes {
		nd := nd
		peersCh, err := nd.topic.WatchPeers(ctx)
		if err != nil {
			return fail("WatchPeers: %v", err)
		}
		msgCh, err := nd.topic.WatchMessages(ctx)
		if err != nil {
			return fail("WatchMessages: %v", err)
		}
		go func() {
			for e := range peersCh {
				if j, ok := e.(*iface.EventPubSubJoin); ok {
					nd.mu.Lock()
					nd.joins[j.Peer.String()]++
					nd.mu.Unlock()
				}
			}
		}()
		go func() {
			for m := range msgCh {
				nd.mu.Lock()
				nd.got = append(nd.got, m.Content)
				nd.mu.Unlock()
			}
		}()
		_ = i
	}
	if err := mn.ConnectAllButSelf(); err != nil {
		return fail("harness: %v", err)
	}
	// wait until every node sees every other one on the topic
	if !world.WaitFor(func() bool {
		for _, nd := range nodes {
			ps, _ := nd.topic.Peers(ctx)
			if len(ps) != c.N-1 {
				return false
			}
		}
		return true
	}, 20*time.Second) {
		o.Inconclusive = true
		return o
	}
	want := make([][][]byte, c.N)
	for i, s := range c.Sends {
		data := append([]byte(fmt.Sprintf("m%03d-", i)), bytes.Repeat([]byte{byte('a' + i%26)}, s.Size)...)
		if err := nodes[s.From].topic.Publish(ctx, data); err != nil {
			return fail("Publish failed: %v", err)
		}
		for j := 0; j < c.N; j++ {
			if j != s.From {
				want[j] = append(want[j], data)
			}
		}
	}
	for j, nd := range nodes {
		if !world.WaitFor(func() bool { nd.mu.Lock(); defer nd.mu.Unlock(); return len(nd.got) >= len(want[j]) }, 20*time.Second) {
			nd.mu.Lock()
			n := len(nd.got)
			nd.mu.Unlock()
			return fail("node %d received %d of the %d payloads published by the others", j, n, len(want[j]))
		}
	}
	time.Sleep(20 * time.Millisecond)
	for j, nd := range nodes {
		nd.mu.Lock()
		got := nd.got
		if len(got) != len(want[j]) {
			nd.mu.Unlock()
			return fail("node %d received %d payloads, %d were published by others (own messages must be filtered, remote ones delivered once)", j, len(got), len(want[j]))
		}
		// per-sender order is preserved by floodsub streams; compare as multisets plus per-sender order
		seen := map[string]int{}
		for _, g := range got {
			seen[string(g)]++
		}
		for _, w := range want[j] {
			if seen[string(w)] != 1 {
				nd.mu.Unlock()
				return fail("node %d received payload %q… %d times", j, w[:5], seen[string(w)])
			}
		}
		for p, n := range nd.joins {
			if n != 1 {
				nd.mu.Unlock()
				return fail("node %d saw peer %s join %d times", j, p, n)
			}
		}
		if len(nd.joins) != c.N-1 {
			nd.mu.Unlock()
			return fail("node %d saw %d joins for %d other peers", j, len(nd.joins), c.N-1)
		}
		nd.mu.Unlock()
	}
	senders := map[int]bool{}
	for _, s := range c.Sends {
		senders[s.From] = true
	}
	o.NonTrivial = len(senders) >= 2
	return o
}

func TestC20Raw(t *testing.T) { runCheck(t, "C20", genC20d, execC20d) }
