package checks

import (
	"context"
	"fmt"
	"strings"
	"testing"
	"time"

	orbitdb "berty.tech/go-orbit-db"
	"berty.tech/go-orbit-db/iface"
	"berty.tech/go-orbit-db/stores"
	"pgregory.net/rapid"
	"verif/harness/model"
	"verif/harness/world"
)

// C05 — acknowledged writes and replicated entries survive restart and crashes.

type StepC05 struct {
	Kind string `json:"kind"` // local | remote | merge | restart
	W    int    `json:"w,omitempty"`
	N    int    `json:"n,omitempty"`
	Key  int    `json:"key,omitempty"`
}

type CaseC05 struct {
	Type      string    `json:"type"`
	Others    int       `json:"others"`
	Steps     []StepC05 `json:"steps"`
	Replicate bool      `json:"replicate"` // replica under test has replication on (merges arrive by head exchange) or off (manual Sync)
	Sample    []int     `json:"sample"`    // prefix choice when the journal is long
}

func genC05(rt *rapid.T) CaseC05 {
	c := CaseC05{
		Type:   rapid.SampledFrom([]string{"eventlog", "keyvalue", "docstore"}).Draw(rt, "type"),
		Others: rapid.SampledFrom([]int{0, 1, 2, 2}).Draw(rt, "others"),
	}
	max := 8
	if thorough() {
		max = 12
	}
	n := rapid.IntRange(1, max).Draw(rt, "nsteps")
	for i := 0; i < n; i++ {
		kinds := []string{"local", "local", "restart"}
		if c.Others > 0 {
			kinds = append(kinds, "remote", "remote", "merge", "merge")
		}
		st := StepC05{Kind: rapid.SampledFrom(kinds).Draw(rt, "kind")}
		switch st.Kind {
		case "local":
			st.N = rapid.IntRange(1, 3).Draw(rt, "n")
			st.Key = rapid.IntRange(0, 2).Draw(rt, "key")
		case "remote":
			st.W = rapid.IntRange(1, c.Others).Draw(rt, "w")
			st.N = rapid.IntRange(1, 3).Draw(rt, "n")
			st.Key = rapid.IntRange(0, 2).Draw(rt, "key")
		case "merge":
			st.W = rapid.IntRange(1, c.Others).Draw(rt, "w")
		}
		c.Steps = append(c.Steps, st)
	}
	if c.Others == 2 && rapid.IntRange(0, 2).Draw(rt, "tail") == 0 {
		// concurrent branches of two remote writers arriving in separate replication rounds, nothing local afterwards
		a := rapid.IntRange(1, 2).Draw(rt, "tailfirst")
		c.Steps = append(c.Steps,
			StepC05{Kind: "remote", W: a, N: rapid.IntRange(1, 2).Draw(rt, "tn1"), Key: 1},
			StepC05{Kind: "remote", W: 3 - a, N: rapid.IntRange(1, 2).Draw(rt, "tn2"), Key: 2},
			StepC05{Kind: "merge", W: a}, StepC05{Kind: "merge", W: 3 - a})
	}
	c.Sample = rapid.SliceOfN(rapid.IntRange(0, 100000), 12, 12).Draw(rt, "sample")
	return c
}

func execC05(c CaseC05) *Outcome {
	ctx := context.Background()
	o := &Outcome{}
	world.ResetHooks()
	no := false
	cl, err := world.NewCluster(ctx, world.ClusterOpts{N: 1 + c.Others, Type: c.Type, Replicate: &no})
	if err != nil {
		return fail("harness: cluster: %v", err)
	}
	defer cl.Close()
	p0 := cl.W.Peers[0]
	j := p0.Journal
	idBefore := p0.DB.Identity().ID
	start := j.Len()
	tr := newTracker()
	cnt := 0

	// acknowledgement of replicated batches: the store under test gets a harness-owned event bus whose
	// Emit places the mark in the journal at the very moment the replicated event is emitted, i.e.
	// between the persistence effects issued before and after the emission (a subscriber goroutine
	// would place it some effects later)
	tapOpts := func() *orbitdb.CreateDBOptions {
		return &orbitdb.CreateDBOptions{Replicate: &no, EventBus: world.NewTapBus(func(evt interface{}) {
			ev, ok := evt.(stores.EventReplicated)
			if !ok {
				return
			}
			var hs []string
			for _, en := range ev.Entries {
				hs = append(hs, en.GetHash().String())
			}
			j.Mark("ack " + strings.Join(hs, " "))
		})}
	}
	{
		if err := cl.Stores[0].Close(); err != nil {
			return fail("harness: %v", err)
		}
		s, err := p0.DB.Open(ctx, cl.Addr, tapOpts())
		if err != nil {
			return fail("harness: reopen with the tapped bus: %v", err)
		}
		if err := s.Load(ctx, -1); err != nil {
			return fail("harness: %v", err)
		}
		cl.Stores[0] = s
	}
	stopSub := func() {}
	watch := func(iface.Store) {}
	start = j.Len()

	write := func(wr int, st StepC05) error {
		s := cl.Stores[wr]
		for i := 0; i < st.N; i++ {
			before := hashSetOf(s)
			op, err := writeAny(ctx, s, c.Type, st.Key, 3, cnt)
			cnt++
			if err != nil {
				return err
			}
			if err := tr.noteWrites(s, wr, before, []model.Op{op}); err != nil {
				return err
			}
			if wr == 0 {
				j.Mark("ack " + tr.seq[len(tr.seq)-1])
			}
		}
		return nil
	}
	replicatedBatch := false
	for i, st := range c.Steps {
		switch st.Kind {
		case "local":
			if err := write(0, st); err != nil {
				return fail("step %d: local write failed: %v", i, err)
			}
		case "remote":
			if err := write(1+(st.W-1)%c.Others, st); err != nil {
				return fail("step %d: remote write failed: %v", i, err)
			}
		case "merge":
			src := 1 + (st.W-1)%c.Others
			if cl.Stores[src].OpLog().Len() == 0 {
				continue
			}
			have := hashSetOf(cl.Stores[0])
			fresh := false
			for _, h := range world.HashSet(cl.Stores[src]) {
				if !have[h] {
					fresh = true
				}
			}
			if err := syncFrom(cl, 0, src); err != nil {
				if err == world.ErrInconclusive {
					o.Inconclusive = true
					return o
				}
				return fail("step %d: merge: %v", i, err)
			}
			if fresh {
				replicatedBatch = true
			}
		case "restart":
			if !cl.W.WaitQuiescent([]iface.Store{cl.Stores[0]}, nil, claimTimeout) {
				o.Inconclusive = true
				return o
			}
			time.Sleep(time.Millisecond)
			stopSub()
			p0.StopInstance()
			db, err := p0.StartInstance(ctx)
			if err != nil {
				return fail("step %d: restart: %v", i, err)
			}
			s, err := db.Open(ctx, cl.Addr, tapOpts())
			if err != nil {
				return fail("step %d: reopen: %v", i, err)
			}
			cl.Stores[0] = s
			if err := s.Load(ctx, -1); err != nil {
				return fail("step %d: Load after a clean restart failed: %v", i, err)
			}
			watch(s)
			if db.Identity().ID != idBefore {
				return fail("step %d: the peer's identity changed across a clean restart", i)
			}
			// everything acknowledged so far must be there after a clean restart too
			have := hashSetOf(s)
			for _, e := range j.Snapshot() {
				if e.Kind == "mark" {
					for _, h := range strings.Fields(strings.TrimPrefix(e.Note, "ack ")) {
						if !have[h] {
							return fail("step %d: entry %s acknowledged before a clean restart is missing after reopen + Load(-1)", i, short(h))
						}
					}
				}
			}
			o.Labels = append(o.Labels, "clean-restart")
		}
	}
	if !cl.W.WaitQuiescent([]iface.Store{cl.Stores[0]}, nil, claimTimeout) {
		o.Inconclusive = true
		return o
	}
	time.Sleep(2 * time.Millisecond)
	stopSub()
	effects := j.Snapshot()

	// crash points: every prefix of the journal after database creation (sampled when long)
	var cuts []int
	total := len(effects) - start
	if total <= 40 {
		for k := start; k <= len(effects); k++ {
			cuts = append(cuts, k)
		}
	} else {
		cuts = append(cuts, start, len(effects))
		for _, x := range c.Sample {
			cuts = append(cuts, start+x%(total+1))
		}
		for k := len(effects) - 12; k < len(effects); k++ {
			cuts = append(cuts, k)
		}
	}
	cutBetween := false
	for _, k := range cuts {
		prefix := effects[:k]
		acked := map[string]bool{}
		for _, e := range prefix {
			if e.Kind == "mark" {
				for _, h := range strings.Fields(strings.TrimPrefix(e.Note, "ack ")) {
					acked[h] = true
				}
			}
		}
		if k > start && k < len(effects) && effects[k-1].Kind == "block" && effects[k].Kind == "cache.put" {
			cutBetween = true
		}
		rp, err := world.MaterialisePrefix(p0.Slot, prefix)
		if err != nil {
			return fail("harness: materialise: %v", err)
		}
		out := func() *Outcome {
			defer rp.Shutdown()
			db, err := rp.StartInstance(ctx)
			if err != nil {
				return fail("crash after effect %d/%d: the instance does not start on the recovered directory: %v", k, len(effects), err)
			}
			if db.Identity().ID != idBefore {
				return fail("crash after effect %d/%d: the peer's identity changed", k, len(effects))
			}
			s, err := db.Open(ctx, cl.Addr, &orbitdb.CreateDBOptions{Replicate: &no})
			if err != nil {
				return fail("crash after effect %d/%d (%s): the database cannot be reopened: %v", k, len(effects), descEffect(effects, k), err)
			}
			lctx, cancel := context.WithTimeout(ctx, 60*time.Second)
			defer cancel()
			if err := s.Load(lctx, -1); err != nil {
				return fail("crash after effect %d/%d (%s): Load(-1) failed: %v", k, len(effects), descEffect(effects, k), err)
			}
			have := hashSetOf(s)
			for h := range acked {
				if !have[h] {
					return fail("crash after effect %d/%d (%s): entry %s had been acknowledged but is missing after recovery (%d entries recovered)", k, len(effects), descEffect(effects, k), short(h), len(have))
				}
			}
			var ents []model.Ent
			for h := range have {
				e, ok := tr.ents[h]
				if !ok {
					return fail("crash after effect %d/%d: recovered entry %s was never written", k, len(effects), short(h))
				}
				ents = append(ents, e)
			}
			if ok, link := model.ClosedUnderNext(ents); !ok {
				return fail("crash after effect %d/%d (%s): the recovered log is not closed under ancestry (%s)", k, len(effects), descEffect(effects, k), link)
			}
			order, err := tr.checkOrder(s)
			if err != nil {
				return fail("crash after effect %d/%d: %v", k, len(effects), err)
			}
			if c.Type != "eventlog" {
				want := model.Replay(tr.opsIn(order))
				switch c.Type {
				case "keyvalue":
					all := s.(iface.KeyValueStore).All()
					if len(all) != len(want) {
						return fail("crash after effect %d/%d: recovered view has %d keys, the replay of the recovered log %d", k, len(effects), len(all), len(want))
					}
					for key, v := range want {
						if string(all[key]) != string(v) {
							return fail("crash after effect %d/%d: recovered value of %q differs from the replay of the recovered log", k, len(effects), key)
						}
					}
				default:
					docs, err := s.(iface.DocumentStore).Query(ctx, func(interface{}) (bool, error) { return true, nil })
					if err != nil || len(docs) != len(want) {
						return fail("crash after effect %d/%d: recovered view has %d documents, the replay of the recovered log %d", k, len(effects), len(docs), len(want))
					}
				}
			}
			// the peer can still write
			if _, err := writeAny(ctx, s, c.Type, 0, 2, 100000+k); err != nil {
				return fail("crash after effect %d/%d: a write after recovery failed: %v", k, len(effects), err)
			}
			return nil
		}()
		if out != nil {
			return out
		}
	}
	o.NonTrivial = cutBetween || replicatedBatch
	if cutBetween {
		o.Labels = append(o.Labels, "cut-between-block-and-head")
	}
	if replicatedBatch {
		o.Labels = append(o.Labels, "replicated-batch")
	}
	o.Labels = append(o.Labels, fmt.Sprintf("crash-points<=%d", (len(cuts)/10+1)*10))
	return o
}

func descEffect(effects []world.Effect, k int) string {
	if k == 0 || k > len(effects) {
		return "start"
	}
	e := effects[k-1]
	switch e.Kind {
	case "block":
		return "last effect: block " + short(e.Cid)
	case "mark":
		return "last effect: acknowledgement"
	default:
		return "last effect: " + e.Kind + " " + e.Key
	}
}

func TestC05(t *testing.T) { runCheck(t, "C05", genC05, execC05) }
