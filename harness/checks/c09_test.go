package checks

import (
	"context"
	"encoding/json"
	"fmt"
	cid "github.com/ipfs/go-cid"
	"sync"
	"testing"
	"time"

	ipfslog "berty.tech/go-ipfs-log"
	orbitdb "berty.tech/go-orbit-db"
	"berty.tech/go-orbit-db/accesscontroller"
	"berty.tech/go-orbit-db/address"
	"berty.tech/go-orbit-db/iface"
	"berty.tech/go-orbit-db/stores"
	"github.com/libp2p/go-libp2p/p2p/host/eventbus"
	"pgregory.net/rapid"
	"verif/harness/world"
)

// C09 — databases opened by the same process do not affect one another.

type DBC09 struct {
	Type string `json:"type"`
	List int    `json:"list"` // 0: [p0,p2]  1: [p0,p1,p2]  2: "*"
}

type ActC09 struct {
	Kind string `json:"kind"` // write | load | replicate
	DB   int    `json:"db"`
	N    int    `json:"n"`
}

type CaseC09 struct {
	DBs  []DBC09  `json:"dbs"`
	Acts []ActC09 `json:"acts"`
	// NoRepl: the instance under test opens its databases with replication off (entries reach them by Sync only)
	NoRepl bool `json:"no_repl,omitempty"`
}

func genC09(rt *rapid.T) CaseC09 {
	var c CaseC09
	n := rapid.IntRange(2, 4).Draw(rt, "ndbs")
	for i := 0; i < n; i++ {
		c.DBs = append(c.DBs, DBC09{
			Type: rapid.SampledFrom([]string{"eventlog", "keyvalue", "docstore"}).Draw(rt, "type"),
			List: rapid.IntRange(0, 2).Draw(rt, "list"),
		})
	}
	m := rapid.IntRange(2, 9).Draw(rt, "nacts")
	for i := 0; i < m; i++ {
		c.Acts = append(c.Acts, ActC09{
			Kind: rapid.SampledFrom([]string{"write", "write", "replicate", "replicate", "load", "racewrite", "racewrite", "exchange2", "exchange2", "stall"}).Draw(rt, "kind"),
			DB:   rapid.IntRange(0, n-1).Draw(rt, "db"),
			N:    rapid.IntRange(1, 4).Draw(rt, "n"),
		})
	}
	c.NoRepl = rapid.IntRange(0, 3).Draw(rt, "noRepl") == 0
	return c
}

type dbSnap struct {
	set      []string
	view     []string
	progress int
	max      int
	local    string
	remote   string
}

func execC09(c CaseC09) *Outcome {
	ctx := context.Background()
	o := &Outcome{}
	world.ResetHooks()
	w, err := world.New(3, nil)
	if err != nil {
		return fail("harness: %v", err)
	}
	defer w.Close()
	for _, p := range w.Peers {
		if _, err := p.StartInstance(ctx); err != nil {
			return fail("harness: %v", err)
		}
	}
	no := false
	n := len(c.DBs)
	st := make([][]iface.Store, 3) // [peer][db]
	for i := range st {
		st[i] = make([]iface.Store, n)
	}
	addrs := make([]string, n)
	shared0 := &orbitdb.CreateDBOptions{}
	if c.NoRepl {
		shared0.Replicate = &no
	}
	sameSig := map[string]bool{}
	for d, db := range c.DBs {
		var list []string
		switch db.List {
		case 0:
			list = w.WriteList([]int{0, 2})
		case 1:
			list = w.WriteList([]int{0, 1, 2})
		default:
			list = []string{"*"}
		}
		ac := &accesscontroller.CreateAccessControllerOptions{Access: map[string][]string{"write": list}}
		// the author creates the database; the instance under test opens all of its databases with ONE
		// options value, as callers commonly do
		// databases that differ by type or write list carry the SAME name (their addresses differ by the manifest
		// hash only); a second database with the same type and list gets a name of its own
		name := "db"
		sig := fmt.Sprintf("%s/%d", db.Type, db.List)
		if sameSig[sig] {
			name = fmt.Sprintf("db%d", d)
		}
		sameSig[sig] = true
		s2, err := w.Peers[2].DB.Create(ctx, name, db.Type, &orbitdb.CreateDBOptions{AccessController: ac, Replicate: &no})
		if err != nil {
			return fail("harness: create: %v", err)
		}
		addrs[d] = s2.Address().String()
		st[2][d] = s2
		s0, err := w.Peers[0].DB.Open(ctx, addrs[d], shared0)
		if err != nil {
			return fail("harness: open: %v", err)
		}
		st[0][d] = s0
		s1, err := w.Peers[1].DB.Open(ctx, addrs[d], &orbitdb.CreateDBOptions{})
		if err != nil {
			return fail("harness: open: %v", err)
		}
		st[1][d] = s1
		for p := 0; p < 3; p++ {
			if err := st[p][d].Load(ctx, -1); err != nil {
				return fail("harness: load: %v", err)
			}
		}
	}
	var live []iface.Store
	for p := 0; p < 2; p++ {
		live = append(live, st[p]...)
	}
	rest := func() bool { return w.WaitQuiescent(live, nil, claimTimeout) }
	if !rest() {
		o.Inconclusive = true
		return o
	}

	// all store events on the shared bus of the instance under test
	sub, err := w.Peers[0].DB.EventBus().Subscribe(append(append([]interface{}{}, stores.Events...), new(stores.EventLoadProgress)), eventbus.BufSize(4096))
	if err != nil {
		return fail("harness: subscribe: %v", err)
	}
	defer sub.Close()
	type seen struct {
		addr    string
		kind    string
		entries []ipfslog.Entry
	}
	var evMu sync.Mutex
	var events []seen
	go func() {
		for e := range sub.Out() {
			var s seen
			var a address.Address
			switch ev := e.(type) {
			case stores.EventWrite:
				a, s.kind, s.entries = ev.Address, "write", append([]ipfslog.Entry{ev.Entry}, ev.Heads...)
			case stores.EventReplicated:
				a, s.kind, s.entries = ev.Address, "replicated", ev.Entries
			case stores.EventReplicate:
				a, s.kind = ev.Address, "replicate"
			case stores.EventReplicateProgress:
				a, s.kind, s.entries = ev.Address, "replicate.progress", []ipfslog.Entry{ev.Entry}
			case stores.EventLoad:
				a, s.kind, s.entries = ev.Address, "load", ev.Heads
			case stores.EventLoadProgress:
				a, s.kind, s.entries = ev.Address, "load.progress", []ipfslog.Entry{ev.Entry}
			case stores.EventReady:
				a, s.kind, s.entries = ev.Address, "ready", ev.Heads
			default:
				continue
			}
			if a != nil {
				s.addr = a.String()
			}
			evMu.Lock()
			events = append(events, s)
			evMu.Unlock()
		}
	}()

	snap := func(d int) dbSnap {
		s := st[0][d]
		v, _ := viewOf(s, c.DBs[d].Type)
		cache := w.Peers[0].Disk.Store(world.CachePath("/verif-disk", s.Address()))
		lh, _ := cache.Get(ctx, dsKey("_localHeads"))
		rh, _ := cache.Get(ctx, dsKey("_remoteHeads"))
		return dbSnap{set: world.HashSet(s), view: v, progress: s.ReplicationStatus().GetProgress(), max: s.ReplicationStatus().GetMax(), local: string(lh), remote: string(rh)}
	}
	cnt := 0
	nonTrivial := false
	for ai, a := range c.Acts {
		d := a.DB % n
		if c.NoRepl && (a.Kind == "racewrite" || a.Kind == "exchange2") {
			a.Kind = "replicate" // no topic and no head exchange without replication: entries arrive by Sync
		}
		other := -1 // a second database touched by the action (racewrite)
		before := make([]dbSnap, n)
		for i := 0; i < n; i++ {
			before[i] = snap(i)
		}
		evMu.Lock()
		events = nil
		evMu.Unlock()
		msgFrom := w.LogLen()
		switch a.Kind {
		case "write":
			for k := 0; k < a.N; k++ {
				if _, err := writeAny(ctx, st[0][d], c.DBs[d].Type, k%2, 3, cnt); err != nil {
					return fail("action %d: write failed: %v", ai, err)
				}
				cnt++
			}
		case "racewrite":
			// the announcement of a write on d is held in its (slow) peer lookup while another database is written
			e := (d + 1 + a.N) % n
			if e == d {
				e = (d + 1) % n
			}
			other = e
			release, parked := w.HoldPeers(0, addrs[d])
			if a.N >= 3 {
				// (the long run below needs a lookup that stays stuck whatever its deadline)
				release()
				release, parked = w.HoldPeersHard(0, addrs[d])
			}
			if _, err := writeAny(ctx, st[0][d], c.DBs[d].Type, 0, 3, cnt); err != nil {
				release()
				return fail("action %d: write failed: %v", ai, err)
			}
			cnt++
			world.WaitFor(func() bool { return parked() > 0 }, 5*time.Second)
			sent := w.LogLen()
			if _, err := writeAny(ctx, st[0][e], c.DBs[e].Type, 1, 3, cnt); err != nil {
				release()
				return fail("action %d: write failed: %v", ai, err)
			}
			cnt++
			// let the second write's announcement go out (it is not held), then release the first
			world.WaitFor(func() bool { return w.LogLen() > sent }, 5*time.Second)
			time.Sleep(500 * time.Microsecond)
			if a.N >= 3 {
				// a longer run of writes on the other database while the first database's announcement is still
				// held (a slow topic): more than any event queue between the two holds
				var werr error
				gerr := guarded(fmt.Sprintf("a run of 24 writes on database %d while an announcement of database %d is held in its peer lookup", e, d), func() {
					for q := 0; q < 24 && werr == nil; q++ {
						_, werr = writeAny(ctx, st[0][e], c.DBs[e].Type, q%3, 3, cnt+q)
					}
				})
				cnt += 24
				if gerr != nil {
					release()
					return fail("action %d: %v", ai, gerr)
				}
				if werr != nil {
					release()
					return fail("action %d: write failed: %v", ai, werr)
				}
				o.Labels = append(o.Labels, "long-run-while-other-announcement-held")
			}
			release()
		case "exchange2":
			// a returning peer hands over its heads of two databases back to back (head exchange on the direct
			// channel), the second message arriving while the first database is still fetching
			e := (d + 1 + a.N) % n
			if e == d {
				e = (d + 1) % n
			}
			other = e
			var wants [2][]string
			var msgs [2][]byte
			for k, x := range []int{d, e} {
				for q := 0; q < 1+a.N; q++ {
					if _, err := writeAny(ctx, st[2][x], c.DBs[x].Type, 2+q%2, 3, cnt); err != nil {
						return fail("action %d: author write failed: %v", ai, err)
					}
					cnt++
				}
				wants[k] = world.HashSet(st[2][x])
				m, err := headsMessage(addrs[x], world.Heads(st[2][x]))
				if err != nil {
					return fail("harness: %v", err)
				}
				msgs[k] = m
			}
			p0 := w.Peers[0]
			p0.SetGate(true)
			if !w.InjectDirect(2, 0, msgs[0]) || !w.InjectDirect(2, 0, msgs[1]) {
				p0.SetGate(false)
				return fail("harness: the instance has no direct channel")
			}
			world.WaitFor(func() bool { return len(p0.Parked()) > 0 }, 2*time.Second)
			time.Sleep(500 * time.Microsecond)
			p0.SetGate(false)
			err := w.WaitClaim("the entries handed over for both databases become visible", func() bool {
				for k, x := range []int{d, e} {
					have := hashSetOf(st[0][x])
					for _, h := range wants[k] {
						if !have[h] {
							return false
						}
					}
				}
				return true
			}, live, nil, claimTimeout)
			if err != nil {
				if err == world.ErrInconclusive {
					o.Inconclusive = true
					return o
				}
				return fail("action %d: head exchanges for databases %d and %d delivered back to back: %v", ai, d, e, err)
			}
		case "stall":
			// another database of the instance has more fetches in flight than a replicator runs at once, and none
			// of them completes (blocks announced by a peer that is not serving them): entries handed to database d
			// meanwhile, perfectly fetchable, must still arrive
			e := (d + 1 + a.N) % n
			if e == d {
				e = (d + 1) % n
			}
			other = e
			for q := 0; q < 34+a.N; q++ {
				if _, err := writeAny(ctx, st[2][e], c.DBs[e].Type, q%3, 3, cnt); err != nil {
					return fail("action %d: author write failed: %v", ai, err)
				}
				cnt++
			}
			stuck := map[string]bool{}
			have0 := hashSetOf(st[0][e])
			var all []ipfslog.Entry
			for _, en := range st[2][e].OpLog().GetEntries().Slice() {
				if !have0[en.GetHash().String()] {
					stuck[en.GetHash().String()] = true
					all = append(all, en)
				}
			}
			wantE := world.HashSet(st[2][e])
			p0 := w.Peers[0]
			p0.SetGateFor(func(c cid.Cid) bool { return stuck[c.String()] })
			hs, err := cloneHeads(all)
			if err != nil {
				p0.SetGate(false)
				return fail("harness: %v", err)
			}
			if err := st[0][e].Sync(ctx, hs); err != nil {
				p0.SetGate(false)
				return fail("action %d: Sync: %v", ai, err)
			}
			world.WaitFor(func() bool { return len(p0.Parked()) >= 32 }, 2*time.Second)
			nParked := len(p0.Parked())
			for k := 0; k < a.N; k++ {
				if _, err := writeAny(ctx, st[2][d], c.DBs[d].Type, 2+k%2, 3, cnt); err != nil {
					p0.SetGate(false)
					return fail("action %d: author write failed: %v", ai, err)
				}
				cnt++
			}
			heads, err := cloneHeads(world.Heads(st[2][d]))
			if err != nil {
				p0.SetGate(false)
				return fail("harness: %v", err)
			}
			want := world.HashSet(st[2][d])
			if err := st[0][d].Sync(ctx, heads); err != nil {
				p0.SetGate(false)
				return fail("action %d: Sync: %v", ai, err)
			}
			arrived := func() bool {
				have := hashSetOf(st[0][d])
				for _, h := range want {
					if !have[h] {
						return false
					}
				}
				return true
			}
			// decided by state, not by a deadline: database d is reported only if, for 3 s on end, it has work
			// queued, no fetch of its own in flight, and none of its blocks is among the parked ones
			deadline := time.Now().Add(claimTimeout)
			var idleSince time.Time
			verdict := ""
			for !arrived() {
				stD := world.Stats(st[0][d])
				if stD.Queued > 0 && stD.Fetching == 0 {
					if idleSince.IsZero() {
						idleSince = time.Now()
					}
					if time.Since(idleSince) > 3*time.Second {
						verdict = fmt.Sprintf("database %d has %d fetches queued and none in flight while database %d has %d fetches in flight that do not complete", d, stD.Queued, e, nParked)
						break
					}
				} else {
					idleSince = time.Time{}
				}
				if time.Now().After(deadline) {
					verdict = "inconclusive"
					break
				}
				time.Sleep(2 * time.Millisecond)
			}
			p0.SetGate(false)
			if verdict == "inconclusive" {
				o.Inconclusive = true
				return o
			}
			if verdict != "" {
				return fail("action %d: %s", ai, verdict)
			}
			if nParked >= 32 {
				o.Labels = append(o.Labels, "other-db-stalled-with>=32-fetches")
			}
			err = w.WaitClaim("the stalled database receives its entries once its blocks are served", func() bool {
				have := hashSetOf(st[0][e])
				for _, h := range wantE {
					if !have[h] {
						return false
					}
				}
				return true
			}, live, nil, claimTimeout)
			if err != nil {
				if err == world.ErrInconclusive {
					o.Inconclusive = true
					return o
				}
				return fail("action %d: %v", ai, err)
			}
		case "load":
			if err := st[0][d].Load(ctx, -1); err != nil {
				return fail("action %d: Load failed: %v", ai, err)
			}
		case "replicate":
			for k := 0; k < a.N; k++ {
				if _, err := writeAny(ctx, st[2][d], c.DBs[d].Type, 2+k%2, 3, cnt); err != nil {
					return fail("action %d: author write failed: %v", ai, err)
				}
				cnt++
			}
			heads, err := cloneHeads(world.Heads(st[2][d]))
			if err != nil {
				return fail("harness: %v", err)
			}
			want := world.HashSet(st[2][d])
			if err := st[0][d].Sync(ctx, heads); err != nil {
				return fail("action %d: Sync: %v", ai, err)
			}
			err = w.WaitClaim("replicated entries visible", func() bool {
				have := hashSetOf(st[0][d])
				for _, h := range want {
					if !have[h] {
						return false
					}
				}
				return true
			}, live, nil, claimTimeout)
			if err != nil {
				if err == world.ErrInconclusive {
					o.Inconclusive = true
					return o
				}
				return fail("action %d: replication into db %d: %v", ai, d, err)
			}
		}
		if !rest() {
			o.Inconclusive = true
			return o
		}
		time.Sleep(time.Millisecond)
		desc := fmt.Sprintf("action %d (%s on database %d of %d)", ai, a.Kind, d, n)
		// (b) the other databases did not change
		for i := 0; i < n; i++ {
			if i == d || i == other {
				continue
			}
			after := snap(i)
			b := before[i]
			if len(b.set) > 0 {
				nonTrivial = true
			}
			switch {
			case !eqStrings(after.set, b.set):
				return fail("%s changed the entries of database %d (%d -> %d)", desc, i, len(b.set), len(after.set))
			case !eqStrings(after.view, b.view):
				return fail("%s changed the view of database %d", desc, i)
			case after.progress != b.progress || after.max != b.max:
				return fail("%s changed the replication status of database %d from %d/%d to %d/%d", desc, i, b.progress, b.max, after.progress, after.max)
			case after.local != b.local:
				return fail("%s changed the cached local heads of database %d", desc, i)
			case after.remote != b.remote:
				return fail("%s changed the cached remote heads of database %d", desc, i)
			}
		}
		// (a) nothing of this database travelled on another database's channels
		for _, m := range w.LogSince(msgFrom) {
			var msg iface.MessageExchangeHeads
			if err := json.Unmarshal(m.Data, &msg); err != nil {
				return fail("%s: an undecodable message was sent on %s", desc, m.Kind)
			}
			if m.Kind == "topic" && msg.Address != m.Topic {
				return fail("%s: a message naming database %s was published on the topic of %s", desc, short(msg.Address), short(m.Topic))
			}
			if m.From == 0 && msg.Address != addrs[d] && (other < 0 || msg.Address != addrs[other]) {
				return fail("%s: the instance sent a %s message for another database (%s)", desc, m.Kind, short(msg.Address))
			}
			for _, h := range msg.Heads {
				if h != nil && h.LogID != msg.Address {
					return fail("%s: a %s message for database %s carries a head of database %s", desc, m.Kind, short(msg.Address), short(h.LogID))
				}
			}
		}
		// (c) events: only for the touched database, carrying only its entries
		evMu.Lock()
		evs := append([]seen{}, events...)
		evMu.Unlock()
		for _, e := range evs {
			if e.addr != addrs[d] && (other < 0 || e.addr != addrs[other]) {
				return fail("%s: a %q event was emitted with the address of another database", desc, e.kind)
			}
			for _, en := range e.entries {
				if en != nil && en.GetLogID() != e.addr {
					return fail("%s: a %q event for database %s carries an entry of database %s", desc, e.kind, short(e.addr), short(en.GetLogID()))
				}
			}
		}
		o.Labels = append(o.Labels, "act:"+a.Kind)
		if c.NoRepl {
			o.Labels = append(o.Labels, "replication-off")
		}
	}
	o.NonTrivial = nonTrivial
	return o
}

func TestC09(t *testing.T) { runCheck(t, "C09", genC09, execC09) }
