package checks

import (
	"context"
	"fmt"
	"sync"
	"testing"
	"time"

	ipfslog "berty.tech/go-ipfs-log"
	"berty.tech/go-ipfs-log/identityprovider"
	orbitdb "berty.tech/go-orbit-db"
	"berty.tech/go-orbit-db/accesscontroller"
	"berty.tech/go-orbit-db/address"
	"berty.tech/go-orbit-db/iface"
	"berty.tech/go-orbit-db/stores"
	"berty.tech/go-orbit-db/stores/basestore"
	"berty.tech/go-orbit-db/stores/operation"
	coreiface "github.com/ipfs/kubo/core/coreiface"
	"github.com/libp2p/go-libp2p/p2p/host/eventbus"
	"pgregory.net/rapid"
	"verif/harness/world"
)

// C16 (d) — events are never ahead of the state when index updates overlap.
// A harness-owned store type (plain BaseStore + an index whose UpdateIndex can
// be held) lets one writer sit inside the index update while other writers
// and a replication complete theirs; no event may be received for an entry
// the index does not hold yet.

type gatedIndex struct {
	mu      sync.Mutex
	applied map[string]bool
	gate    chan struct{}
	entered int
	// afterRead: the holder parks after it has read the log (its walk is under way) instead of before
	afterRead bool
}

func (g *gatedIndex) Get(string) interface{} { return nil }

func (g *gatedIndex) UpdateIndex(log ipfslog.Log, _ []ipfslog.Entry) error {
	g.mu.Lock()
	g.entered++
	gate := g.gate
	after := g.afterRead
	g.mu.Unlock()
	if gate != nil && !after {
		<-gate
	}
	vals := log.Values().Slice()
	if gate != nil && after {
		<-gate
	}
	g.mu.Lock()
	for _, e := range vals {
		g.applied[e.GetHash().String()] = true
	}
	g.mu.Unlock()
	return nil
}

func (g *gatedIndex) has(h string) bool {
	g.mu.Lock()
	defer g.mu.Unlock()
	return g.applied[h]
}

func (g *gatedIndex) hold() {
	g.mu.Lock()
	g.gate = make(chan struct{})
	g.mu.Unlock()
}

func (g *gatedIndex) open() {
	g.mu.Lock()
	if g.gate != nil {
		close(g.gate)
		g.gate = nil
	}
	g.mu.Unlock()
}

func (g *gatedIndex) enteredCount() int {
	g.mu.Lock()
	defer g.mu.Unlock()
	return g.entered
}

type gatedStore struct {
	basestore.BaseStore
}

func (s *gatedStore) Type() string { return "gated" }

type CaseC16d struct {
	Pre       int  `json:"pre"`
	Writers   int  `json:"writers"`
	WithMerge bool `json:"with_merge"`
	Remote    int  `json:"remote"`
	AfterRead bool `json:"after_read,omitempty"` // the held writer is parked after reading the log, not before
}

func genC16d(rt *rapid.T) CaseC16d {
	return CaseC16d{
		Pre:       rapid.IntRange(0, 3).Draw(rt, "pre"),
		Writers:   rapid.IntRange(1, 5).Draw(rt, "writers"),
		WithMerge: rapid.Bool().Draw(rt, "merge"),
		Remote:    rapid.IntRange(1, 4).Draw(rt, "remote"),
		AfterRead: rapid.Bool().Draw(rt, "afterRead"),
	}
}

func execC16d(c CaseC16d) *Outcome {
	ctx, cancel := context.WithCancel(context.Background())
	defer cancel()
	o := &Outcome{}
	world.ResetHooks()
	w, err := world.New(2, nil)
	if err != nil {
		return fail("harness: %v", err)
	}
	defer w.Close()
	idx := []*gatedIndex{{applied: map[string]bool{}, afterRead: c.AfterRead}, {applied: map[string]bool{}}}
	var ss []iface.Store
	no := false
	addr := ""
	for i, p := range w.Peers {
		db, err := p.StartInstance(ctx)
		if err != nil {
			return fail("harness: %v", err)
		}
		gi := idx[i]
		db.RegisterStoreType("gated", func(api coreiface.CoreAPI, id *identityprovider.Identity, a address.Address, opts *iface.NewStoreOptions) (iface.Store, error) {
			s := &gatedStore{}
			opts.Index = func([]byte) iface.StoreIndex { return gi }
			if err := s.InitBaseStore(api, id, a, opts); err != nil {
				return nil, err
			}
			return s, nil
		})
		var s iface.Store
		if i == 0 {
			ac := &accesscontroller.CreateAccessControllerOptions{Access: map[string][]string{"write": w.WriteList([]int{0, 1})}}
			s, err = db.Create(ctx, "gated-db", "gated", &orbitdb.CreateDBOptions{AccessController: ac, Replicate: &no})
			if err == nil {
				addr = s.Address().String()
			}
		} else {
			s, err = db.Open(ctx, addr, &orbitdb.CreateDBOptions{Replicate: &no})
		}
		if err != nil {
			return fail("harness: open: %v", err)
		}
		if err := s.Load(ctx, -1); err != nil {
			return fail("harness: load: %v", err)
		}
		ss = append(ss, s)
	}
	s0 := ss[0]
	add := func(s iface.Store, val string) (string, error) {
		e, err := s.AddOperation(ctx, operation.NewOperation(nil, "ADD", []byte(val)), nil)
		if err != nil {
			return "", err
		}
		return e.GetHash().String(), nil
	}
	for i := 0; i < c.Pre; i++ {
		if _, err := add(s0, fmt.Sprintf("pre%d", i)); err != nil {
			return fail("pre-write failed: %v", err)
		}
	}
	for i := 0; i < c.Remote; i++ {
		if _, err := add(ss[1], fmt.Sprintf("remote%d", i)); err != nil {
			return fail("remote write failed: %v", err)
		}
	}

	sub, err := s0.EventBus().Subscribe([]interface{}{new(stores.EventWrite), new(stores.EventReplicated)}, eventbus.BufSize(256))
	if err != nil {
		return fail("harness: subscribe: %v", err)
	}
	defer sub.Close()
	var mu sync.Mutex
	var early []string
	nWrite, nRepl := 0, 0
	go func() {
		for {
			select {
			case <-ctx.Done():
				return
			case e, ok := <-sub.Out():
				if !ok {
					return
				}
				var hs []string
				switch ev := e.(type) {
				case stores.EventWrite:
					hs = []string{ev.Entry.GetHash().String()}
					mu.Lock()
					nWrite++
					mu.Unlock()
				case stores.EventReplicated:
					for _, en := range ev.Entries {
						hs = append(hs, en.GetHash().String())
					}
					mu.Lock()
					nRepl++
					mu.Unlock()
				}
				for _, h := range hs {
					if !idx[0].has(h) {
						mu.Lock()
						early = append(early, fmt.Sprintf("%T for entry %s", e, short(h)))
						mu.Unlock()
					}
				}
			}
		}
	}()

	// hold the index, start the first writer and wait until it sits inside the index update
	idx[0].hold()
	base := idx[0].enteredCount()
	type res struct {
		h   string
		err error
	}
	results := make(chan res, c.Writers)
	go func() {
		h, err := add(s0, "held-writer")
		results <- res{h, err}
	}()
	if !world.WaitFor(func() bool { return idx[0].enteredCount() > base }, 10*time.Second) {
		idx[0].open()
		o.Inconclusive = true
		return o
	}
	// the other writers and, optionally, a replication run while the first one is held
	for i := 1; i < c.Writers; i++ {
		i := i
		go func() {
			h, err := add(s0, fmt.Sprintf("writer%d", i))
			results <- res{h, err}
		}()
	}
	if c.WithMerge {
		heads, err := cloneHeads(world.Heads(ss[1]))
		if err != nil {
			return fail("harness: %v", err)
		}
		if err := s0.Sync(ctx, heads); err != nil {
			return fail("Sync: %v", err)
		}
	}
	// give everything the time to reach its own index update (or, wrongly, to skip it and emit)
	want := base + c.Writers
	if c.WithMerge {
		want++
	}
	world.WaitFor(func() bool {
		mu.Lock()
		n := len(early)
		mu.Unlock()
		return n > 0 || idx[0].enteredCount() >= want
	}, 3*time.Second)
	time.Sleep(2 * time.Millisecond)
	mu.Lock()
	e0 := append([]string{}, early...)
	mu.Unlock()
	idx[0].open()
	if len(e0) > 0 {
		return fail("while one writer was inside the index update, %d event(s) were received for entries the index does not hold: %v", len(e0), e0)
	}
	var acked []string
	for i := 0; i < c.Writers; i++ {
		select {
		case r := <-results:
			if r.err != nil {
				return fail("write failed: %v", r.err)
			}
			acked = append(acked, r.h)
		case <-time.After(20 * time.Second):
			o.Inconclusive = true
			return o
		}
	}
	if !w.WaitQuiescent([]iface.Store{s0}, nil, 20*time.Second) {
		o.Inconclusive = true
		return o
	}
	world.WaitFor(func() bool {
		mu.Lock()
		defer mu.Unlock()
		return nWrite >= c.Writers
	}, 10*time.Second)
	mu.Lock()
	defer mu.Unlock()
	if len(early) > 0 {
		return fail("events were received for entries the index does not hold: %v", early)
	}
	if nWrite != c.Writers {
		return fail("%d write events for %d successful writes", nWrite, c.Writers)
	}
	for _, h := range acked {
		if !idx[0].has(h) {
			return fail("acknowledged write %s never reached the index", short(h))
		}
	}
	o.NonTrivial = c.Writers >= 2 || c.WithMerge
	if c.WithMerge {
		o.Labels = append(o.Labels, "merge-during-held-index")
	}
	if c.Writers >= 2 {
		o.Labels = append(o.Labels, "writers-during-held-index")
	}
	return o
}

func TestC16GatedIndex(t *testing.T) { runCheck(t, "C16", genC16d, execC16d) }

// TestC17GatedIndex: the same scenario decides C17's "every acknowledged write is visible": a writer is held
// inside the view update (before or after it has read the log) while the others write.
func TestC17GatedIndex(t *testing.T) { runCheck(t, "C17", genC16d, execC16d) }
