package checks

import (
	"context"
	"fmt"
	"sync"
	"testing"
	"time"

	ipfslog "berty.tech/go-ipfs-log"
	"berty.tech/go-ipfs-log/entry/sorting"
	orbitdb "berty.tech/go-orbit-db"
	"berty.tech/go-orbit-db/accesscontroller"
	"berty.tech/go-orbit-db/iface"
	"pgregory.net/rapid"
	"verif/harness/world"
)

// C17 — a goroutine held INSIDE the linearisation of the log (Values): the stores' own indexes are used
// (unlike the gated-index tests, which replace the index), the park point is the log's sort function, a public
// open option (CreateDBOptions.SortFn). The harness passes the default order wrapped in a gate: armed at a hook
// firing of the operation under observation (a local write just after its head is persisted, or a merge just
// after its fetch ended), the gate parks the k-th comparison made from then on - wherever the code that walks the
// log happens to be. While it is parked other writes run to completion if the code lets them; then it goes on.
// At rest every acknowledged write must be listed and the view must be the state of the log.

type CaseC17s struct {
	Type   string `json:"type"`
	Pre    int    `json:"pre"`
	First  string `json:"first"`  // write | merge
	Remote int    `json:"remote"` // entries the other writer holds (merge)
	Second int    `json:"second"` // writes made while the first operation is parked
	Skip   int    `json:"skip"`   // comparisons let through after arming
}

func genC17s(rt *rapid.T) CaseC17s {
	return CaseC17s{
		Type:   rapid.SampledFrom([]string{"eventlog", "eventlog", "keyvalue", "docstore"}).Draw(rt, "type"),
		Pre:    rapid.IntRange(2, 12).Draw(rt, "pre"),
		First:  rapid.SampledFrom([]string{"write", "merge"}).Draw(rt, "first"),
		Remote: rapid.IntRange(1, 5).Draw(rt, "remote"),
		Second: rapid.IntRange(1, 3).Draw(rt, "second"),
		Skip:   rapid.SampledFrom([]int{0, 0, 1, 3, 8}).Draw(rt, "skip"),
	}
}

type sortGate struct {
	mu      sync.Mutex
	armed   bool
	skip    int
	parked  chan struct{}
	release chan struct{}
}

func newSortGate() *sortGate {
	return &sortGate{parked: make(chan struct{}), release: make(chan struct{})}
}

func (g *sortGate) arm(skip int) {
	g.mu.Lock()
	g.armed, g.skip = true, skip
	g.mu.Unlock()
}

func (g *sortGate) disarm() {
	g.mu.Lock()
	g.armed = false
	g.mu.Unlock()
}

func (g *sortGate) compare(a, b ipfslog.Entry) (int, error) {
	g.mu.Lock()
	if g.armed {
		if g.skip > 0 {
			g.skip--
		} else {
			g.armed = false
			g.mu.Unlock()
			close(g.parked)
			<-g.release
			return sorting.LastWriteWins(a, b)
		}
	}
	g.mu.Unlock()
	return sorting.LastWriteWins(a, b)
}

func execC17s(c CaseC17s) *Outcome {
	ctx, cancel := context.WithCancel(context.Background())
	defer cancel()
	o := &Outcome{}
	w, err := world.New(2, nil)
	if err != nil {
		return fail("harness: %v", err)
	}
	defer w.Close()
	gate := newSortGate()
	released := false
	releaseGate := func() {
		if !released {
			released = true
			close(gate.release)
		}
	}
	defer releaseGate()
	no := false
	var ss []iface.Store
	addr := ""
	for i, p := range w.Peers {
		db, err := p.StartInstance(ctx)
		if err != nil {
			return fail("harness: %v", err)
		}
		opts := &orbitdb.CreateDBOptions{Replicate: &no}
		if i == 0 {
			opts.SortFn = gate.compare
		}
		var s iface.Store
		if i == 0 {
			opts.AccessController = &accesscontroller.CreateAccessControllerOptions{Access: map[string][]string{"write": w.WriteList([]int{0, 1})}}
			s, err = db.Create(ctx, "sorted-db", c.Type, opts)
			if err == nil {
				addr = s.Address().String()
			}
		} else {
			s, err = db.Open(ctx, addr, opts)
		}
		if err != nil {
			return fail("harness: open: %v", err)
		}
		if err := s.Load(ctx, -1); err != nil {
			return fail("harness: load: %v", err)
		}
		ss = append(ss, s)
	}
	s0 := ss[0]
	cnt := 0
	var acked []string
	for i := 0; i < c.Pre; i++ {
		h, err := writeReturningHash(ctx, s0, c.Type, cnt%3, 5, cnt)
		cnt++
		if err != nil {
			return fail("pre-write failed: %v", err)
		}
		acked = append(acked, h)
	}
	if c.First == "merge" {
		for i := 0; i < c.Remote; i++ {
			if _, err := writeReturningHash(ctx, ss[1], c.Type, (cnt+1)%3, 5, 1000+cnt); err != nil {
				return fail("remote write failed: %v", err)
			}
			cnt++
		}
	}
	var armOnce sync.Once
	remove := world.AddHook(func(name string, subject interface{}, args []interface{}) {
		if subject != interface{}(s0.Replicator()) {
			return
		}
		if (c.First == "write" && name == "store.addop.persisted") || (c.First == "merge" && name == "replicator.loadend.emit") {
			armOnce.Do(func() { gate.arm(c.Skip) })
		}
	})
	defer remove()

	type res struct {
		h   string
		err error
	}
	firstDone := make(chan res, 1)
	go func() {
		if c.First == "write" {
			h, err := writeReturningHash(ctx, s0, c.Type, cnt%3, 5, 5000)
			firstDone <- res{h, err}
			return
		}
		heads, err := cloneHeads(world.Heads(ss[1]))
		if err != nil {
			firstDone <- res{"", err}
			return
		}
		if err := s0.Sync(ctx, heads); err != nil {
			firstDone <- res{"", err}
			return
		}
		if !w.WaitQuiescent([]iface.Store{s0}, nil, 20*time.Second) {
			firstDone <- res{"", fmt.Errorf("no rest")}
			return
		}
		firstDone <- res{"", nil}
	}()
	parked := false
	var first *res
	select {
	case <-gate.parked:
		parked = true
	case r := <-firstDone:
		first = &r
	case <-time.After(25 * time.Second):
		o.Inconclusive = true
		return o
	}
	gate.disarm()
	// the other writes, while the first operation is held where it is
	secondDone := make(chan res, c.Second)
	go func() {
		for i := 0; i < c.Second; i++ {
			h, err := writeReturningHash(ctx, s0, c.Type, (i+1)%3, 5, 6000+i)
			secondDone <- res{h, err}
		}
	}()
	got := 0
	overlapped := 0
	if parked {
		// (a schedule choice, not an oracle: writes that cannot finish while the first is held - they wait for a
		// lock it holds - simply finish after it)
		wait := time.After(300 * time.Millisecond)
	loop:
		for got < c.Second {
			select {
			case r := <-secondDone:
				if r.err != nil {
					return fail("a write made while another operation was walking the log failed: %v", r.err)
				}
				acked = append(acked, r.h)
				got++
				overlapped++
			case <-wait:
				break loop
			}
		}
	}
	releaseGate()
	for got < c.Second {
		select {
		case r := <-secondDone:
			if r.err != nil {
				return fail("a write failed: %v", r.err)
			}
			acked = append(acked, r.h)
			got++
		case <-time.After(20 * time.Second):
			o.Inconclusive = true
			return o
		}
	}
	if first == nil {
		select {
		case r := <-firstDone:
			first = &r
		case <-time.After(25 * time.Second):
			o.Inconclusive = true
			return o
		}
	}
	if first.err != nil {
		if first.err.Error() == "no rest" {
			o.Inconclusive = true
			return o
		}
		return fail("the first operation (%s) failed: %v", c.First, first.err)
	}
	if first.h != "" {
		acked = append(acked, first.h)
	}
	if !w.WaitQuiescent([]iface.Store{s0}, nil, 20*time.Second) {
		o.Inconclusive = true
		return o
	}
	have := hashSetOf(s0)
	for _, h := range acked {
		if !have[h] {
			return fail("acknowledged write %s is not in the log at rest", short(h))
		}
	}
	if c.First == "merge" {
		for _, e := range ss[1].OpLog().GetEntries().Slice() {
			if !have[e.GetHash().String()] {
				return fail("entry %s of the merged replica is not in the log at rest", short(e.GetHash().String()))
			}
		}
	}
	if c.Type == "eventlog" {
		listed := map[string]bool{}
		for _, h := range world.Hashes(s0) {
			listed[h] = true
		}
		for h := range have {
			if !listed[h] {
				return fail("entry %s is in the log but not in the listing at rest (first operation: %s, parked inside the log walk: %v, %d write(s) completed meanwhile)", short(h), c.First, parked, overlapped)
			}
		}
	}
	if out := viewIsReplay(s0, c.Type, fmt.Sprintf("at rest (first operation: %s, parked inside the log walk: %v, %d write(s) completed meanwhile)", c.First, parked, overlapped)); out != nil {
		return out
	}
	o.NonTrivial = parked && overlapped > 0
	if parked {
		o.Labels = append(o.Labels, "parked-inside-log-walk:"+c.First)
	}
	if overlapped > 0 {
		o.Labels = append(o.Labels, "writes-completed-while-parked")
	}
	return o
}

func TestC17SortPark(t *testing.T) { runCheck(t, "C17", genC17s, execC17s) }
