package checks

import (
	"context"
	"fmt"
	"testing"
	"time"

	"berty.tech/go-ipfs-log/entry"
	"berty.tech/go-orbit-db/iface"
	cid "github.com/ipfs/go-cid"
	"pgregory.net/rapid"
	"verif/harness/world"
)

// C10 — rejected entries never block replication of valid entries.

type ItemC10 struct {
	Kind string `json:"kind"` // valid | nonwriter | badsig | sibling | wronghash
	Idx  int    `json:"idx,omitempty"`
}

type AnnC10 struct {
	Route string    `json:"route"`
	Items []ItemC10 `json:"items"`
	// Wait: the replica comes to rest (parked fetches released in the drawn order) before the next announcement,
	// so that a later announcement finds the earlier one's entries already merged
	Wait bool `json:"wait,omitempty"`
}

type CaseC10 struct {
	Type    string     `json:"type"`
	Authors int        `json:"authors"`
	Hist    []HistStep `json:"hist"`
	Anns    []AnnC10   `json:"anns"`
	Gated   bool       `json:"gated"`
	Release []int      `json:"release,omitempty"`
	ReRoute string     `json:"reroute"`
	Restart bool       `json:"restart,omitempty"` // afterwards the replica restarts and loads its log: nothing it refused may stand in the way
}

func genC10(rt *rapid.T) CaseC10 {
	c := CaseC10{
		Type:    rapid.SampledFrom([]string{"eventlog", "keyvalue", "docstore"}).Draw(rt, "type"),
		Authors: rapid.IntRange(1, 3).Draw(rt, "authors"),
		ReRoute: rapid.SampledFrom([]string{"sync", "topic", "direct"}).Draw(rt, "reroute"),
		Restart: rapid.Bool().Draw(rt, "restart"),
	}
	c.Hist = genHist(rt, c.Authors, 8)
	na := rapid.IntRange(1, 3).Draw(rt, "nanns")
	for i := 0; i < na; i++ {
		a := AnnC10{Route: rapid.SampledFrom([]string{"sync", "sync", "topic", "topic", "direct", "direct", "loadmore"}).Draw(rt, "route")}
		n := rapid.IntRange(1, 4).Draw(rt, "nitems")
		for j := 0; j < n; j++ {
			it := ItemC10{Kind: rapid.SampledFrom([]string{"valid", "valid", "valid", "nonwriter", "badsig", "sibling", "wronghash", "badparent"}).Draw(rt, "kind")}
			it.Idx = rapid.IntRange(0, 30).Draw(rt, "idx")
			a.Items = append(a.Items, it)
		}
		a.Wait = rapid.Bool().Draw(rt, "wait")
		c.Anns = append(c.Anns, a)
	}
	c.Gated = rapid.Bool().Draw(rt, "gated")
	if c.Gated {
		c.Release = rapid.SliceOfN(rapid.IntRange(0, 40), 0, 16).Draw(rt, "release")
	}
	return c
}

func execC10(c CaseC10) *Outcome {
	ctx := context.Background()
	o := &Outcome{}
	world.ResetHooks()
	env, err := newHostileEnv(ctx, hostileOpts{Type: c.Type, Authors: c.Authors, VictimWrites: true})
	if err != nil {
		return fail("harness: %v", err)
	}
	defer env.cl.Close()
	cl := env.cl
	if _, out := buildHistory(ctx, cl, env.tr, c.Type, c.Authors, c.Hist, &env.cnt); out != nil {
		return out
	}
	if _, err := env.honestWrite(ctx, 0, 0); err != nil {
		return fail("harness: %v", err)
	}
	honest := append([]string{}, env.tr.seq...)
	pv := cl.W.Peers[env.V]
	v := env.victim()

	rejectedBeforeValid := false
	mkRejected := func(kind string, idx int) (*entry.Entry, error) {
		base := env.entryObj(honest[idx%len(honest)])
		switch kind {
		case "nonwriter":
			payload, _ := opPayload(c.Type, hostileMarker+"-key", []byte(hostileMarker+"-nonwriter"))
			var next []cid.Cid
			if idx%2 == 0 {
				next = []cid.Cid{base.Hash}
			} else {
				next = []cid.Cid{}
			}
			e, err := env.craft(ctx, env.X, cl.Addr, payload, next, base.Clock.Time+1)
			if err != nil {
				return nil, err
			}
			env.hostile[e.Hash.String()] = "entry authored by an identity outside the write list"
			return e, nil
		case "badsig":
			m := cloneEntry(base)
			m.Clock.Time += 5
			if err := env.rehash(ctx, env.X, m); err != nil {
				return nil, err
			}
			env.hostile[m.Hash.String()] = "entry whose signature does not verify (clock changed after signing)"
			return m, nil
		case "sibling":
			payload, _ := opPayload(c.Type, hostileMarker+"-key", []byte(hostileMarker+"-sibling"))
			e, err := env.craft(ctx, env.C, cl.Addr+"-other", payload, []cid.Cid{}, 1+idx%5)
			if err != nil {
				return nil, err
			}
			env.hostile[e.Hash.String()] = "entry written for another database"
			return e, nil
		case "badparent":
			// a valid entry of an authorised writer (it may be merged) naming, besides a real parent, the bytes of
			// an honest entry under an address they do not hash to (same digest, raw codec): that parent is
			// refused when it is fetched - a fetch that fails although nothing is wrong with the transport
			payload, op := opPayload(c.Type, "k2", []byte(fmt.Sprintf("colluder-badparent-%d", idx)))
			raw := cid.NewCidV1(cid.Raw, base.Hash.Hash())
			if base.Clock.Time > env.ctime {
				env.ctime = base.Clock.Time
			}
			e, err := env.craftValid(ctx, payload, []cid.Cid{base.Hash, raw})
			if err != nil {
				return nil, err
			}
			env.registerCrafted(e, env.C, op)
			env.hostile[raw.String()] = "honest bytes under an address they do not hash to (raw codec)"
			return e, nil
		default: // wronghash
			m := cloneEntry(base)
			payload, _ := opPayload(c.Type, hostileMarker+"-key", []byte(hostileMarker+"-wronghash"))
			m.Payload = payload
			// claimed hash kept: it is the honest entry's address, the content is not
			return m, nil
		}
	}

	if c.Gated {
		pv.SetGate(true)
	}
	rel := 0
	releaseOne := func() bool {
		idx := 0
		if rel < len(c.Release) {
			idx = c.Release[rel]
		}
		rel++
		return pv.ReleaseParked(idx)
	}
	fetchedRejected := false
	for ai, a := range c.Anns {
		var heads []*entry.Entry
		sawRejected := false
		for _, it := range a.Items {
			if it.Kind == "valid" {
				heads = append(heads, cloneEntry(env.entryObj(honest[it.Idx%len(honest)])))
				if sawRejected {
					rejectedBeforeValid = true
				}
				continue
			}
			e, err := mkRejected(it.Kind, it.Idx)
			if err != nil {
				return fail("harness: craft %s: %v", it.Kind, err)
			}
			heads = append(heads, e)
			sawRejected = true
		}
		if err := env.deliver(ctx, a.Route, heads); err != nil {
			return fail("harness: deliver announcement %d: %v", ai, err)
		}
		if a.Wait && ai < len(c.Anns)-1 {
			until := time.Now().Add(5 * time.Second) // (a schedule choice, not an oracle: no rest within it is fine)
			for time.Now().Before(until) {
				if c.Gated && len(pv.Parked()) > 0 {
					releaseOne()
					continue
				}
				if cl.W.WaitQuiescent([]iface.Store{v}, nil, 50*time.Millisecond) && len(pv.Parked()) == 0 {
					break
				}
			}
		}
		if c.Gated {
			for k := 0; k < 1+ai; k++ {
				time.Sleep(200 * time.Microsecond)
				releaseOne()
			}
		}
	}
	// let the mixed announcements run to rest, releasing parked fetches in the drawn order
	restedAfterMixed := false
	deadline := time.Now().Add(claimTimeout)
	for {
		if c.Gated && len(pv.Parked()) > 0 {
			releaseOne()
			continue
		}
		if cl.W.WaitQuiescent([]iface.Store{v}, nil, 50*time.Millisecond) && len(pv.Parked()) == 0 {
			restedAfterMixed = true
			break
		}
		if time.Now().After(deadline) {
			pv.SetGate(false)
			// not at rest: the aborted state itself may be the wedge; the honest phase decides
			break
		}
	}
	pv.SetGate(false)
	for h := range env.hostile {
		if pv.Fetched(mustCid(h)) {
			fetchedRejected = true
		}
	}
	if restedAfterMixed {
		// at rest after the mixed announcements: whatever the replica merged of them is visible (its view is the
		// replay of its log) and nothing rejected is in it - a later batch would rebuild a stale view and hide it
		if err := env.victimClean(); err != nil {
			return fail("at rest after the mixed announcements %s: %v", annSummary(c.Anns), err)
		}
	}

	// honest re-announcement of the valid heads, twice, then once more with a newer head
	announceHeads := func() error {
		for a := 0; a < c.Authors; a++ {
			if cl.Stores[a].OpLog().Len() == 0 {
				continue
			}
			var hs []*entry.Entry
			for _, h := range world.Heads(cl.Stores[a]) {
				hs = append(hs, cloneEntry(h.(*entry.Entry)))
			}
			if err := env.deliver(ctx, c.ReRoute, hs); err != nil {
				return err
			}
		}
		return nil
	}
	rested := false
	for k := 0; k < 2; k++ {
		if err := announceHeads(); err != nil {
			return fail("harness: %v", err)
		}
		rested = cl.W.WaitQuiescent([]iface.Store{v}, nil, 5*time.Second)
	}
	if rested {
		// what the replica holds by now must be visible, not only held: its view is the replay of its log
		// (the newer write below would rebuild the view and hide a stale one)
		if err := env.victimClean(); err != nil {
			return fail("after mixed announcements %s and two honest re-announcements: %v", annSummary(c.Anns), err)
		}
	}
	{
		// every honest entry has now been announced again by an honest message: all of them are held (a newer
		// write would start a fresh round and flush whatever an earlier one left behind)
		var sofar []string
		for _, h := range env.tr.seq {
			if _, crafted := env.crafted[h]; !crafted {
				sofar = append(sofar, h)
			}
		}
		err := cl.W.WaitClaim("every valid entry announced again by the honest messages is held by the replica", func() bool {
			have := hashSetOf(v)
			for _, h := range sofar {
				if !have[h] {
					return false
				}
			}
			return cl.W.Quiescent([]iface.Store{v}, nil)
		}, []iface.Store{v}, nil, claimTimeout)
		if err != nil {
			if err == world.ErrInconclusive {
				o.Inconclusive = true
				return o
			}
			have := hashSetOf(v)
			missing := 0
			for _, h := range sofar {
				if !have[h] {
					missing++
				}
			}
			return fail("after mixed announcements %s and two honest re-announcements (route %s), %d of %d valid entries are still missing: %v", annSummary(c.Anns), c.ReRoute, missing, len(sofar), err)
		}
	}
	if _, err := env.honestWrite(ctx, 0, 1); err != nil {
		return fail("harness: %v", err)
	}
	if err := announceHeads(); err != nil {
		return fail("harness: %v", err)
	}
	// (the honest entries: a valid entry crafted for a hostile announcement - the head naming a bad parent - is
	// known to the models in case it is merged, but no honest message announces it, so it is not demanded)
	var all []string
	for _, h := range env.tr.seq {
		if _, crafted := env.crafted[h]; !crafted {
			all = append(all, h)
		}
	}
	err = cl.W.WaitClaim("every valid entry announced by the honest messages is visible on the replica", func() bool {
		have := hashSetOf(v)
		for _, h := range all {
			if !have[h] {
				return false
			}
		}
		return cl.W.Quiescent([]iface.Store{v}, nil)
	}, []iface.Store{v}, nil, claimTimeout)
	if err != nil {
		if err == world.ErrInconclusive {
			o.Inconclusive = true
			return o
		}
		have := hashSetOf(v)
		missing := 0
		for _, h := range all {
			if !have[h] {
				missing++
			}
		}
		return fail("after mixed announcements %s and three honest re-announcements (route %s), %d of %d valid entries are still missing: %v", annSummary(c.Anns), c.ReRoute, missing, len(all), err)
	}
	if err := env.victimClean(); err != nil {
		return fail("after mixed announcements %s: %v", annSummary(c.Anns), err)
	}
	if c.Restart {
		if c.Gated {
			env.cl.W.Peers[env.V].SetGate(false)
		}
		if err := env.victimRestartClean(ctx); err != nil {
			if err == world.ErrInconclusive {
				o.Inconclusive = true
				return o
			}
			return fail("after mixed announcements %s: %v", annSummary(c.Anns), err)
		}
		o.Labels = append(o.Labels, "restart-after")
	}
	o.NonTrivial = rejectedBeforeValid && fetchedRejected
	if rejectedBeforeValid {
		o.Labels = append(o.Labels, "rejected-before-valid-in-one-announcement")
	}
	if fetchedRejected {
		o.Labels = append(o.Labels, "rejected-entry-was-fetched")
	}
	if c.Gated {
		o.Labels = append(o.Labels, "gated")
	}
	return o
}

func annSummary(as []AnnC10) string {
	s := ""
	for _, a := range as {
		s += "[" + a.Route + ":"
		for _, it := range a.Items {
			s += " " + it.Kind
		}
		s += "]"
	}
	return s
}

var _ = fmt.Sprintf

func TestC10(t *testing.T) { runCheck(t, "C10", genC10, execC10) }
