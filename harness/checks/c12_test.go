package checks

import (
	"context"
	"encoding/base64"
	"encoding/json"
	"fmt"
	"strings"
	"testing"

	"berty.tech/go-ipfs-log/entry"
	"berty.tech/go-orbit-db/iface"
	cid "github.com/ipfs/go-cid"
	"pgregory.net/rapid"
	"verif/harness/world"
)

// C12 — malformed network messages never crash a peer or change its state.
// (1) bytes on the database topic, (2) bytes as a direct-channel payload.

type MutC12 struct {
	Op   string `json:"op"` // del | set | raw | flip | trunc | splice | dup
	Path string `json:"path,omitempty"`
	Val  string `json:"val,omitempty"` // JSON text for set, literal for raw/splice
	Pos  int    `json:"pos,omitempty"`
	N    int    `json:"n,omitempty"`
}

type CaseC12 struct {
	Type    string   `json:"type"`
	Route   string   `json:"route"` // topic | direct
	Heads   int      `json:"heads"` // how many real heads the base message carries (1-3)
	Muts    []MutC12 `json:"muts"`
	Repeat  int      `json:"repeat"`
	PreSync bool     `json:"presync"`
}

var c12Paths = []string{
	"address", "heads", "heads.0", "heads.1", "heads.0.identity", "heads.0.identity.id", "heads.0.identity.publicKey", "heads.0.identity.signatures",
	"heads.0.identity.signatures.id", "heads.0.identity.signatures.publicKey", "heads.0.identity.type", "heads.0.clock", "heads.0.clock.id", "heads.0.clock.time",
	"heads.0.hash", "heads.0.key", "heads.0.sig", "heads.0.next", "heads.0.refs", "heads.0.payload", "heads.0.id", "heads.0.v", "heads.0.next.0", "heads.0.hash./",
}

var c12Values = []string{
	`null`, `{}`, `[]`, `[null]`, `[{}]`, `""`, `"x"`, `0`, `-1`, `1e309`, `18446744073709551616`, `true`, `[[[[[[[[[[[[]]]]]]]]]]]]`, `{"/":"bafy"}`, `{"/":null}`,
	`"bafyreicxlacpouougfu2bfjmbprxrst7x23uyl3n6ybdagen2bp6x5bakq"`, `{"id":null,"time":-5}`, `{"id":"AAAA","time":9007199254740993}`, `[{"hash":null}]`, `[{"identity":{}}]`,
	`[{"identity":{"id":"x","publicKey":"AA==","signatures":null,"type":"orbitdb"}}]`, `{"a":{"a":{"a":{"a":{"a":{"a":{"a":{}}}}}}}}`, `"AAAAAAAAAAAAAAAAAAAAAAAAAAAAAAAAAAAAAAAAAAAAAAAAAAA="`,
}

var c12Raw = []string{
	``, `null`, `{}`, `[]`, `"heads"`, `{"heads":null}`, `{"heads":[null]}`, `{"heads":[{}]}`, `{"heads":[null,null,{}]}`, `{"address":"x","heads":[{"hash":{"/":"bafyreicxlacpouougfu2bfjmbprxrst7x23uyl3n6ybdagen2bp6x5bakq"}}]}`,
	`{"heads":[{"identity":null,"clock":null}]}`, `{"heads":[{"identity":{"id":"a"}}]}`, `{"heads":[{"clock":{"id":"AA==","time":1}}]}`, `{"heads":{"0":{}}}`, `{"heads":"x"}`, `{"heads":[1,2,3]}`,
	`{"heads":[[]]}`, "\x00\x01\x02\xff\xfe", `{"heads":[{"next":[null],"refs":[null]}]}`, `{"heads":[{"next":[{"/":"x"}]}]}`, `{"address":null,"heads":[{"id":"x","payload":"AA==","v":2}]}`,
	`{"heads":[{"identity":{"id":"x","publicKey":"AA==","signatures":{"id":"AA==","publicKey":"AA=="},"type":"orbitdb"},"key":"AA==","sig":"AA==","v":2,"id":"x","payload":"AA==","clock":{"id":"AA==","time":1}}]}`,
}

func genC12(rt *rapid.T) CaseC12 {
	c := CaseC12{
		Type:    rapid.SampledFrom([]string{"eventlog", "keyvalue"}).Draw(rt, "type"),
		Route:   rapid.SampledFrom([]string{"topic", "direct"}).Draw(rt, "route"),
		Heads:   rapid.IntRange(1, 3).Draw(rt, "heads"),
		Repeat:  rapid.IntRange(1, 2).Draw(rt, "repeat"),
		PreSync: rapid.Bool().Draw(rt, "presync"),
	}
	n := rapid.IntRange(1, 3).Draw(rt, "nmuts")
	for i := 0; i < n; i++ {
		m := MutC12{Op: rapid.SampledFrom([]string{"del", "set", "set", "set", "raw", "flip", "trunc", "splice", "dup"}).Draw(rt, "op")}
		switch m.Op {
		case "del", "dup":
			m.Path = rapid.SampledFrom(c12Paths).Draw(rt, "path")
		case "set":
			m.Path = rapid.SampledFrom(c12Paths).Draw(rt, "path")
			m.Val = rapid.SampledFrom(c12Values).Draw(rt, "val")
		case "raw":
			m.Val = rapid.SampledFrom(c12Raw).Draw(rt, "raw")
		case "flip":
			m.Pos = rapid.IntRange(0, 4000).Draw(rt, "pos")
			m.N = rapid.IntRange(1, 255).Draw(rt, "mask")
		case "trunc":
			m.Pos = rapid.IntRange(0, 4000).Draw(rt, "pos")
		case "splice":
			m.Pos = rapid.IntRange(0, 4000).Draw(rt, "pos")
			m.Val = rapid.SampledFrom([]string{`null`, `{`, `}`, `]`, `,`, `"`, `\u0000`, `{}`, `[]`, `:`}).Draw(rt, "splice")
		}
		c.Muts = append(c.Muts, m)
	}
	return c
}

// applyPath walks a decoded JSON value; fn receives the parent container and key.
func mutateJSON(root interface{}, path string, op string, val interface{}) interface{} {
	parts := strings.Split(path, ".")
	var rec func(node interface{}, i int) interface{}
	rec = func(node interface{}, i int) interface{} {
		if i == len(parts) {
			return node
		}
		key := parts[i]
		last := i == len(parts)-1
		switch n := node.(type) {
		case map[string]interface{}:
			if last {
				switch op {
				case "del":
					delete(n, key)
				case "set":
					n[key] = val
				}
				return n
			}
			if child, ok := n[key]; ok {
				n[key] = rec(child, i+1)
			}
			return n
		case []interface{}:
			idx := 0
			fmt.Sscan(key, &idx)
			if idx < 0 || idx >= len(n) {
				return n
			}
			if last {
				switch op {
				case "del":
					return append(n[:idx:idx], n[idx+1:]...)
				case "set":
					n[idx] = val
				}
				return n
			}
			n[idx] = rec(n[idx], i+1)
			return n
		}
		return node
	}
	return rec(root, 0)
}

func applyMuts(base []byte, muts []MutC12) []byte {
	cur := append([]byte{}, base...)
	for _, m := range muts {
		switch m.Op {
		case "raw":
			cur = []byte(m.Val)
		case "rawb64":
			b, err := base64.StdEncoding.DecodeString(m.Val)
			if err == nil {
				cur = b
			}
		case "del", "set":
			var root interface{}
			if json.Unmarshal(cur, &root) != nil {
				continue
			}
			var v interface{}
			if m.Op == "set" {
				dec := json.NewDecoder(strings.NewReader(m.Val))
				dec.UseNumber()
				if dec.Decode(&v) != nil {
					// not representable through encoding/json (e.g. 1e309): splice the raw text in below
					root = mutateJSON(root, m.Path, "set", "@@RAW@@")
					b, _ := json.Marshal(root)
					cur = []byte(strings.Replace(string(b), `"@@RAW@@"`, m.Val, 1))
					continue
				}
			}
			root = mutateJSON(root, m.Path, m.Op, v)
			b, err := json.Marshal(root)
			if err == nil {
				cur = b
			}
		case "dup":
			// duplicate a member by textual repetition of the first occurrence of its key
			parts := strings.Split(m.Path, ".")
			k := `"` + parts[len(parts)-1] + `":`
			if i := strings.Index(string(cur), k); i >= 0 {
				cur = []byte(string(cur[:i]) + k + `null,` + string(cur[i:]))
			}
		case "flip":
			if len(cur) > 0 {
				cur[m.Pos%len(cur)] ^= byte(m.N)
			}
		case "trunc":
			if len(cur) > 0 {
				cur = cur[:m.Pos%len(cur)]
			}
		case "splice":
			if len(cur) > 0 {
				p := m.Pos % len(cur)
				cur = []byte(string(cur[:p]) + m.Val + string(cur[p:]))
			}
		}
	}
	return cur
}

func execC12(c CaseC12) *Outcome {
	ctx := context.Background()
	o := &Outcome{}
	world.ResetHooks()
	env, err := newHostileEnv(ctx, hostileOpts{Type: c.Type, Authors: 1, VictimWrites: true})
	if err != nil {
		return fail("harness: %v", err)
	}
	defer env.cl.Close()
	cl := env.cl
	for i := 0; i < 2+c.Heads; i++ {
		if _, err := env.honestWrite(ctx, 0, i%3); err != nil {
			return fail("harness: %v", err)
		}
	}
	if c.PreSync {
		if err := syncFrom(cl, env.V, 0); err != nil {
			if err == world.ErrInconclusive {
				o.Inconclusive = true
				return o
			}
			return fail("presync: %v", err)
		}
	}
	held := hashSetOf(env.victim())
	// the base message: real entries announced as heads (newest first)
	var heads []*entry.Entry
	for i := 0; i < c.Heads; i++ {
		heads = append(heads, env.entryObj(env.tr.seq[len(env.tr.seq)-1-i]))
	}
	base, err := json.Marshal(&iface.MessageExchangeHeads{Address: cl.Addr, Heads: heads})
	if err != nil {
		return fail("harness: %v", err)
	}
	msg := applyMuts(base, c.Muts)
	decoded := json.Unmarshal(msg, &iface.MessageExchangeHeads{}) == nil
	for r := 0; r < c.Repeat; r++ {
		switch c.Route {
		case "topic":
			if !cl.W.InjectTopic(env.V, cl.Addr, msg) {
				return fail("harness: victim not subscribed")
			}
		default:
			if !cl.W.InjectDirect(env.X, env.V, msg) {
				return fail("harness: victim has no direct channel")
			}
		}
	}
	// the very next message is a valid announcement of another shape than the mutated one: the first entry of
	// an authorised writer that has seen nothing (no parents, no references) - whatever the hostile message
	// left behind in the receiver must not leak into it
	{
		payload, op := opPayload(c.Type, "k1", []byte("fresh-writer-first-entry"))
		fe, err := env.craftValid(ctx, payload, []cid.Cid{})
		if err != nil {
			return fail("harness: craft: %v", err)
		}
		env.registerCrafted(fe, env.C, op)
		if err := env.deliver(ctx, c.Route, []*entry.Entry{fe}); err != nil {
			return fail("harness: %v", err)
		}
		fh := fe.Hash.String()
		vv := env.victim()
		if err := cl.W.WaitClaim("a valid first entry of another writer, announced right after the hostile message, becomes visible", func() bool {
			return world.Has(vv, fh) && cl.W.Quiescent([]iface.Store{vv}, nil)
		}, []iface.Store{vv}, nil, claimTimeout); err != nil {
			if err == world.ErrInconclusive {
				o.Inconclusive = true
				return o
			}
			return fail("after the %s message %q: %v", c.Route, clip(msg), err)
		}
	}
	// the untouched original of the mutated message, sent afterwards by the same route, must still be
	// handled: the entries it announces become visible
	switch c.Route {
	case "topic":
		cl.W.InjectTopic(env.V, cl.Addr, base)
	default:
		cl.W.InjectDirect(env.X, env.V, base)
	}
	v := env.victim()
	if err := cl.W.WaitClaim("the entries announced by the untouched original, sent after the mutated copy, become visible", func() bool {
		for _, h := range heads {
			if !world.Has(v, h.Hash.String()) {
				return false
			}
		}
		return cl.W.Quiescent([]iface.Store{v}, nil)
	}, []iface.Store{v}, nil, claimTimeout); err != nil {
		if err == world.ErrInconclusive {
			o.Inconclusive = true
			return o
		}
		return fail("after the %s message %q: %v", c.Route, clip(msg), err)
	}
	// a new valid message afterwards on the same route must still be handled
	if err := env.canary(ctx, c.Route); err != nil {
		if err == world.ErrInconclusive {
			o.Inconclusive = true
			return o
		}
		return fail("after the %s message %q: %v", c.Route, clip(msg), err)
	}
	// nothing but honest entries, nothing lost
	if err := env.victimClean(); err != nil {
		return fail("after the %s message %q: %v", c.Route, clip(msg), err)
	}
	now := hashSetOf(env.victim())
	for h := range held {
		if !now[h] {
			return fail("after the %s message %q: entry %s held before is gone", c.Route, clip(msg), short(h))
		}
	}
	o.NonTrivial = decoded
	if decoded {
		o.Labels = append(o.Labels, "decodes-as-message")
	} else {
		o.Labels = append(o.Labels, "rejected-by-json-decoder")
	}
	o.Labels = append(o.Labels, "route:"+c.Route)
	return o
}

func clip(b []byte) string {
	if len(b) > 300 {
		return string(b[:300]) + "…(" + fmt.Sprint(len(b)) + " bytes, base64 of all: " + base64.StdEncoding.EncodeToString(b)[:80] + "…)"
	}
	return string(b)
}

func TestC12Message(t *testing.T) { runCheck(t, "C12", genC12, execC12) }

// gridC12: every (path, value) pair of the mutation grammar as a single "set" on a real one-head
// announcement, and every path deleted, the route alternating: rare pairs (a one-character identity id, a
// numeric clock id ...) are met for certain instead of with a probability of one in several hundred.
func gridC12() []CaseC12 {
	var out []CaseC12
	n := 0
	for _, p := range c12Paths {
		for _, v := range append([]string{"\x00del"}, c12Values...) {
			route := "topic"
			if n%2 == 1 {
				route = "direct"
			}
			m := MutC12{Op: "set", Path: p, Val: v}
			if v == "\x00del" {
				m = MutC12{Op: "del", Path: p}
			}
			out = append(out, CaseC12{Type: "eventlog", Route: route, Heads: 1, Repeat: 1, Muts: []MutC12{m}})
			n++
		}
	}
	return out
}

func TestC12Grid(t *testing.T) { runEnum(t, "C12", gridC12(), execC12) }

// FuzzC12Message: coverage-guided bytes delivered on the topic or the direct channel (thorough tier).
func FuzzC12Message(f *testing.F) {
	for _, s := range c12Raw {
		f.Add([]byte(s), true)
		f.Add([]byte(s), false)
	}
	// a real announcement as seed
	if env, err := newHostileEnv(context.Background(), hostileOpts{Type: "eventlog", Authors: 1, VictimWrites: true}); err == nil {
		if h, err := env.honestWrite(context.Background(), 0, 0); err == nil {
			if b, err := json.Marshal(&iface.MessageExchangeHeads{Address: env.cl.Addr, Heads: []*entry.Entry{env.entryObj(h)}}); err == nil {
				f.Add(b, true)
				f.Add(b, false)
			}
		}
		env.cl.Close()
	}
	f.Fuzz(func(t *testing.T, data []byte, topic bool) {
		route := "direct"
		if topic {
			route = "topic"
		}
		c := CaseC12{Type: "eventlog", Route: route, Heads: 1, Repeat: 1,
			Muts: []MutC12{{Op: "rawb64", Val: base64.StdEncoding.EncodeToString(data)}}}
		fuzzOne(t, "C12", "TestC12Message", c, execC12)
	})
}
