// Package checks holds one generated check per property (cNN_test.go).
package checks
