package checks

import (
	"context"
	"fmt"
	"testing"
	"time"

	"berty.tech/go-ipfs-log/entry"
	orbitdb "berty.tech/go-orbit-db"
	"berty.tech/go-orbit-db/iface"
	"berty.tech/go-orbit-db/stores"
	cid "github.com/ipfs/go-cid"
	"github.com/libp2p/go-libp2p/p2p/host/eventbus"
	"pgregory.net/rapid"
	"verif/harness/world"
)

// C03 — only authorised writers' entries ever enter a database.

const keyForgedAuthor = "C03-forged-author-key"

type CaseC03 struct {
	Type    string     `json:"type"`
	List    string     `json:"list"` // subset | wildcard | default | creator
	Authors int        `json:"authors"`
	Hist    []HistStep `json:"hist"`
	PreSync bool       `json:"presync"`
	Kind    string     `json:"kind"`                  // nonwriter | forged-id | forged-identity | stolen-key-field | local-write
	Route   string     `json:"route"`                 // sync | topic | direct | ancestor
	Honest  int        `json:"honest"`                // honest writes interleaved after the hostile delivery
	Chain   int        `json:"chain"`                 // length of the hostile chain (the head's own hostile ancestors)
	Shared  bool       `json:"shared_opts"`           // the victim opened a wildcard sibling database first, with the same options value
	Prior   bool       `json:"prior_legit,omitempty"` // with shared_opts: the attacker's entry in the wildcard sibling was accepted by the victim first
	// OpenFault (local-write only): the non-writer opens the database for the first time while the k-th block
	// read of that Open fails (database manifest, access-controller manifest, write list, ...); 0 = no fault
	OpenFault int    `json:"open_fault,omitempty"`
	Restart   bool   `json:"restart,omitempty"` // afterwards the replica restarts and loads its log
	AC        string `json:"ac,omitempty"`      // "" = ipfs controller (list in the manifest) | "simple" (bundled in-memory controller, list passed by every opener)
}

func genC03(rt *rapid.T) CaseC03 {
	kinds := []string{"nonwriter", "nonwriter", "nonwriter-otherlog", "stolen-key-field", "local-write", "local-write"}
	if !isKnown(keyForgedAuthor) {
		kinds = append(kinds, "forged-id", "forged-identity", "forged-id", "forged-identity")
	}
	c := CaseC03{
		Type:    rapid.SampledFrom([]string{"eventlog", "keyvalue", "docstore"}).Draw(rt, "type"),
		List:    rapid.SampledFrom([]string{"subset", "subset", "wildcard", "default", "creator"}).Draw(rt, "list"),
		Authors: rapid.IntRange(1, 2).Draw(rt, "authors"),
		PreSync: rapid.Bool().Draw(rt, "presync"),
		Kind:    rapid.SampledFrom(kinds).Draw(rt, "kind"),
		Route:   rapid.SampledFrom([]string{"sync", "topic", "direct", "ancestor", "ancestor-refs", "loadmore", "snapqueue"}).Draw(rt, "route"),
		Honest:  rapid.IntRange(0, 2).Draw(rt, "honest"),
		Chain:   rapid.IntRange(1, 3).Draw(rt, "chain"),
		Shared:  rapid.Bool().Draw(rt, "shared"),
	}
	if c.Shared {
		c.Prior = rapid.Bool().Draw(rt, "prior")
	} else {
		c.Restart = rapid.Bool().Draw(rt, "restart")
	}
	if c.Kind == "local-write" && !c.Shared {
		c.OpenFault = rapid.SampledFrom([]int{0, 0, 1, 2, 3, 4, 5}).Draw(rt, "openFault")
	}
	if c.OpenFault == 0 && c.List != "default" && rapid.IntRange(0, 3).Draw(rt, "simpleAC") == 0 {
		c.AC, c.Shared = "simple", false
	}
	c.Hist = genHist(rt, c.Authors, 6)
	return c
}

func execC03(c CaseC03) *Outcome { return execC03x(c, false) }

// execC03x runs the scenario; with eventsOnly it is the C16 check "a replicated event never announces
// an entry the store does not hold", on batches part of which the store refuses.
func execC03x(c CaseC03, eventsOnly bool) *Outcome {
	ctx := context.Background()
	o := &Outcome{}
	if isKnown(keyForgedAuthor) {
		o.Excluded = append(o.Excluded, "forged-id/forged-identity kinds (known finding "+keyForgedAuthor+")")
		if c.Kind == "forged-id" || c.Kind == "forged-identity" {
			// replaying a witness of the known class: still executed, classified below
		}
	}
	world.ResetHooks()
	opts := hostileOpts{Type: c.Type, Authors: c.Authors, VictimWrites: true, SharedOpts: c.Shared, PriorLegit: c.Shared && c.Prior, ACType: c.AC, LateX: c.Kind == "local-write" && c.OpenFault > 0}
	authors := c.Authors
	switch c.List {
	case "wildcard":
		opts.WriteList = []int{-1}
	case "default":
		opts.DefaultAC = true
		authors = 1
	case "creator":
		opts.WriteList = []int{0}
		authors = 1
	}
	opts.Authors = authors
	env, err := newHostileEnv(ctx, opts)
	if err == world.ErrInconclusive {
		o.Inconclusive = true
		return o
	}
	if err != nil {
		return fail("harness: %v", err)
	}
	defer env.cl.Close()
	cl := env.cl
	restricted := c.List != "wildcard"
	colluder := env.C
	if c.List == "default" || c.List == "creator" {
		colluder = -1 // nobody but the creator may write: the only possible colluder is the creator itself
	}
	if _, out := buildHistory(ctx, cl, env.tr, c.Type, authors, c.Hist, &env.cnt); out != nil {
		return out
	}
	if _, err := env.honestWrite(ctx, 0, 0); err != nil {
		return fail("harness: %v", err)
	}
	v := env.victim()
	if eventsOnly {
		stop, err := env.watchReplicated()
		if err != nil {
			return fail("harness: %v", err)
		}
		defer stop()
	}
	if c.PreSync {
		for a := 0; a < authors; a++ {
			if cl.Stores[a].OpLog().Len() == 0 {
				continue
			}
			if err := syncFrom(cl, env.V, a); err != nil {
				if err == world.ErrInconclusive {
					o.Inconclusive = true
					return o
				}
				return fail("presync: %v", err)
			}
		}
	}

	if c.Kind == "local-write" {
		return localWriteC03(ctx, env, c, o, restricted)
	}

	// --- hostile entry received from a peer
	writerID := cl.W.Peers[0].DB.Identity()
	attacker := cl.W.Peers[env.X].DB.Identity()
	var chain []*entry.Entry
	heads := world.Heads(cl.Stores[0])
	var next []cid.Cid
	t := 0
	for _, h := range heads {
		next = append(next, h.GetHash())
		if h.GetClock().GetTime() > t {
			t = h.GetClock().GetTime()
		}
	}
	for i := 0; i < c.Chain; i++ {
		payload, _ := opPayload(c.Type, hostileMarker+"-key", []byte(fmt.Sprintf("%s-%s-%d", hostileMarker, c.Kind, i)))
		logID := cl.Addr
		if c.Kind == "nonwriter-otherlog" {
			logID = cl.Addr + "-the-attackers-own-db"
		}
		e, err := env.craft(ctx, env.X, logID, payload, next, t+1+i)
		if err != nil {
			return fail("harness: craft: %v", err)
		}
		switch c.Kind {
		case "nonwriter-otherlog":
			// honestly signed by the non-writer for a database of its own
			env.hostile[e.Hash.String()] = fmt.Sprintf("non-writer's entry %d written for another database", i)
		case "nonwriter":
			// as is: honestly signed by an identity outside the write list
		case "forged-id":
			// names the writer's id, keeps the attacker's key, signature and identity signatures
			e.Identity = copyIdentity(e.Identity)
			e.Identity.ID = writerID.ID
		case "forged-identity":
			// the writer's whole identity block, the attacker's key and signature
			e.Identity = copyIdentity(writerID.Filtered())
		case "stolen-key-field":
			// the writer's identity block and key field, but the signature is the attacker's
			e.Identity = copyIdentity(writerID.Filtered())
			e.Key = append([]byte{}, writerID.PublicKey...)
		}
		if c.Kind != "nonwriter" && c.Kind != "nonwriter-otherlog" {
			if err := env.rehash(ctx, env.X, e); err != nil {
				return fail("harness: rehash: %v", err)
			}
		}
		if string(e.Key) == string(attacker.PublicKey) || c.Kind == "stolen-key-field" {
			// authored by the attacker by the property's definition (signed with the attacker's key),
			// or not verifiable at all
			if restricted || c.Kind == "stolen-key-field" {
				env.hostile[e.Hash.String()] = fmt.Sprintf("%s entry %d of the hostile chain", c.Kind, i)
			}
		}
		chain = append(chain, e)
		next = []cid.Cid{e.Hash}
	}
	if !restricted && c.Kind != "stolen-key-field" && c.Kind != "nonwriter-otherlog" {
		// wildcard list: a properly signed entry by anyone is acceptable; tell the models about it
		for i, e := range chain {
			_, op := opPayload(c.Type, hostileMarker+"-key", []byte(fmt.Sprintf("%s-%s-%d", hostileMarker, c.Kind, i)))
			env.registerCrafted(e, env.X, op)
		}
	}
	head := chain[len(chain)-1]
	route := c.Route
	if (route == "ancestor" || route == "ancestor-refs") && colluder < 0 {
		route = "sync"
	}
	fetchedBefore := len(cl.W.Peers[env.V].GetLog)
	canaryRoute := route
	switch route {
	case "ancestor-refs":
		// a valid entry of a colluding writer whose skip references (refs) name the hostile entry
		payload, op := opPayload(c.Type, "k2", []byte("colluder-refs"))
		if head.Clock.Time > env.ctime {
			env.ctime = head.Clock.Time
		}
		var cnext []cid.Cid
		for _, h := range world.Heads(cl.Stores[0]) {
			cnext = append(cnext, h.GetHash())
		}
		e, err := env.craftValidRefs(ctx, payload, cnext, []cid.Cid{head.Hash})
		if err != nil {
			return fail("harness: craft colluding entry: %v", err)
		}
		env.registerCrafted(e, env.C, op)
		if err := env.deliver(ctx, "sync", []*entry.Entry{e}); err != nil {
			return fail("harness: %v", err)
		}
		canaryRoute = "sync"
	case "ancestor":
		payload, op := opPayload(c.Type, "k2", []byte("colluder"))
		if head.Clock.Time > env.ctime {
			env.ctime = head.Clock.Time
		}
		e, err := env.craftValid(ctx, payload, []cid.Cid{head.Hash})
		if err != nil {
			return fail("harness: craft colluding entry: %v", err)
		}
		env.registerCrafted(e, env.C, op)
		if err := env.deliver(ctx, "sync", []*entry.Entry{e}); err != nil {
			return fail("harness: %v", err)
		}
		canaryRoute = "sync"
	default:
		if err := env.deliver(ctx, route, []*entry.Entry{head}); err != nil {
			return fail("harness: %v", err)
		}
	}
	for i := 0; i < c.Honest; i++ {
		if _, err := env.honestWrite(ctx, 0, i); err != nil {
			return fail("harness: %v", err)
		}
	}
	if err := env.canary(ctx, canaryRoute); err != nil {
		if err == world.ErrInconclusive {
			o.Inconclusive = true
			return o
		}
		return fail("after a %s entry delivered by %s: %v", c.Kind, route, err)
	}
	reached := len(cl.W.Peers[env.V].GetLog) > fetchedBefore
	o.NonTrivial = reached && len(env.hostile) > 0
	o.Labels = append(o.Labels, "kind:"+c.Kind, "route:"+route, "list:"+c.List)
	if c.AC != "" {
		o.Labels = append(o.Labels, "controller:"+c.AC)
	}
	if eventsOnly {
		// the canary's own event has been received once the watcher has drained the subscription
		time.Sleep(2 * time.Millisecond)
		env.evMu.Lock()
		bad, n := env.evBad, env.evN
		env.evMu.Unlock()
		if bad != "" {
			return fail("write list %s, %s entry delivered by %s: %s", c.List, c.Kind, route, bad)
		}
		o.NonTrivial = o.NonTrivial && n > 0
		return o
	}
	if !restricted && c.Kind != "stolen-key-field" && c.Kind != "nonwriter-otherlog" {
		// the hostile payload is legitimately visible with a wildcard list: only order/replay are checked
		if _, err := env.tr.checkOrder(v); err != nil {
			return fail("wildcard list: %v", err)
		}
		return o
	}
	if err := env.victimClean(); err != nil {
		out := fail("write list %s, %s entry delivered by %s: %v", c.List, c.Kind, route, err)
		if (c.Kind == "forged-id" || c.Kind == "forged-identity") && isKnown(keyForgedAuthor) {
			out.Known = keyForgedAuthor
		}
		return out
	}
	if c.Restart && !c.Shared && c.AC == "" {
		if err := env.victimRestartClean(ctx); err != nil {
			if err == world.ErrInconclusive {
				o.Inconclusive = true
				return o
			}
			out := fail("write list %s, %s entry delivered by %s: %v", c.List, c.Kind, route, err)
			if (c.Kind == "forged-id" || c.Kind == "forged-identity") && isKnown(keyForgedAuthor) {
				out.Known = keyForgedAuthor
			}
			return out
		}
		o.Labels = append(o.Labels, "restart-after")
	}
	return o
}

func localWriteC03(ctx context.Context, env *hostileEnv, c CaseC03, o *Outcome, restricted bool) *Outcome {
	cl := env.cl
	// the non-writer's own replica, replication on, with a topic peer (the victim) so that a publish would be seen
	px := cl.W.Peers[env.X]
	var sx iface.Store
	var err error
	if cl.Stores[env.X] == nil {
		// first contact with the database, with one block read of the Open failing
		px.SetGate(true)
		type res struct {
			s   iface.Store
			err error
		}
		done := make(chan res, 1)
		go func() {
			octx, cancel := context.WithTimeout(ctx, 20*time.Second)
			defer cancel()
			s, err := px.DB.Open(octx, cl.Addr, cl.OpenOpts(&orbitdb.CreateDBOptions{}))
			done <- res{s, err}
		}()
		reads := 0
		var r res
	loop:
		for {
			select {
			case r = <-done:
				break loop
			default:
			}
			if len(px.Parked()) > 0 {
				reads++
				if reads == c.OpenFault {
					px.FailParked(0, fmt.Errorf("simulated read failure"))
				} else {
					px.ReleaseParked(0)
				}
				continue
			}
			time.Sleep(200 * time.Microsecond)
		}
		px.SetGate(false)
		o.Labels = append(o.Labels, fmt.Sprintf("open-with-read-%d-failing(of %d)", c.OpenFault, reads))
		if r.err != nil {
			// the Open is refused: nothing was opened, nothing can be written (an accepted outcome); the caller
			// tries again on the same instance, now that every block can be read: whatever that Open hands back
			// is judged like any other store of the non-writer
			o.Labels = append(o.Labels, "open-refused")
			o.NonTrivial = reads >= c.OpenFault
			s2, err2 := px.DB.Open(ctx, cl.Addr, cl.OpenOpts(&orbitdb.CreateDBOptions{}))
			if err2 != nil {
				o.Labels = append(o.Labels, "retry-refused-too")
				return o
			}
			o.Labels = append(o.Labels, "open-retried-on-the-same-instance")
			r.s = s2
		}
		sx = r.s
	} else {
		_ = cl.Stores[env.X].Close()
		sx, err = px.DB.Open(ctx, cl.Addr, cl.OpenOpts(&orbitdb.CreateDBOptions{}))
		if err != nil {
			return fail("harness: reopen attacker store: %v", err)
		}
	}
	cl.Stores[env.X] = sx
	if err := sx.Load(ctx, -1); err != nil {
		return fail("harness: load: %v", err)
	}
	if c.PreSync {
		if err := syncFrom(cl, env.X, 0); err != nil {
			if err == world.ErrInconclusive {
				o.Inconclusive = true
				return o
			}
			return fail("harness: attacker presync: %v", err)
		}
	}
	if !cl.W.WaitQuiescent([]iface.Store{sx, env.victim()}, nil, claimTimeout) {
		o.Inconclusive = true
		return o
	}
	sub, err := sx.EventBus().Subscribe(new(stores.EventWrite), eventbus.BufSize(16))
	if err != nil {
		return fail("harness: %v", err)
	}
	defer sub.Close()
	lenBefore := sx.OpLog().Len()
	headsBefore := world.HeadHashes(sx)
	viewBefore, _ := viewOf(sx, c.Type)
	cache := px.Disk.Store(world.CachePath("/verif-disk", sx.Address()))
	lhBefore, _ := cache.Get(ctx, dsKey("_localHeads"))
	msgsBefore := cl.W.LogLen()
	victimBefore := world.HashSet(env.victim())

	var werr error
	attempts := []string{"put"}
	if c.Type != "eventlog" {
		attempts = append(attempts, "delete")
	}
	for _, a := range attempts {
		switch {
		case c.Type == "eventlog":
			_, werr = sx.(iface.EventLogStore).Add(ctx, []byte(hostileMarker+"-local"))
		case c.Type == "keyvalue" && a == "put":
			_, werr = sx.(iface.KeyValueStore).Put(ctx, hostileMarker+"-key", []byte(hostileMarker+"-local"))
		case c.Type == "keyvalue":
			_, werr = sx.(iface.KeyValueStore).Delete(ctx, "k0")
		case a == "put":
			_, werr = sx.(iface.DocumentStore).Put(ctx, map[string]interface{}{"_id": hostileMarker + "-key", "v": 1})
		default:
			_, werr = sx.(iface.DocumentStore).Delete(ctx, "k0")
			if werr != nil && sx.OpLog().Len() == lenBefore {
				werr = fmt.Errorf("refused") // absent key or no access: both refusals are fine
			}
		}
		if !restricted {
			if werr != nil && a == "put" {
				return fail("wildcard write list: a write by any identity must be accepted, got %v", werr)
			}
			continue
		}
		if werr == nil {
			return fail("write list %s: a local %s by an identity outside the list returned success", c.List, a)
		}
	}
	o.Labels = append(o.Labels, "kind:local-write", "list:"+c.List)
	if !restricted {
		return o
	}
	if !cl.W.WaitQuiescent([]iface.Store{sx, env.victim()}, nil, claimTimeout) {
		o.Inconclusive = true
		return o
	}
	if sx.OpLog().Len() != lenBefore {
		return fail("the refused write changed the non-writer's log length from %d to %d", lenBefore, sx.OpLog().Len())
	}
	if !eqStrings(world.HeadHashes(sx), headsBefore) {
		return fail("the refused write changed the heads")
	}
	if v, _ := viewOf(sx, c.Type); !eqStrings(v, viewBefore) {
		return fail("the refused write changed the view")
	}
	if lh, _ := cache.Get(ctx, dsKey("_localHeads")); string(lh) != string(lhBefore) {
		return fail("the refused write changed the cached _localHeads")
	}
	select {
	case e := <-sub.Out():
		return fail("the refused write emitted a write event: %T", e)
	default:
	}
	if n := cl.W.LogLen(); n != msgsBefore {
		return fail("the refused write caused %d message(s) to be published", n-msgsBefore)
	}
	if !eqStrings(world.HashSet(env.victim()), victimBefore) {
		return fail("the refused write changed another replica")
	}
	o.NonTrivial = lenBefore > 0
	return o
}

func TestC03(t *testing.T) { runCheck(t, "C03", genC03, execC03) }
