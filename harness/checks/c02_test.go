package checks

import (
	orbitdb "berty.tech/go-orbit-db"
	"context"
	"fmt"
	"testing"
	"time"

	"berty.tech/go-orbit-db/iface"
	"pgregory.net/rapid"
	"verif/harness/model"
	"verif/harness/world"
)

// C02 — after writes stop and peers reconnect, every replica receives every write.

type ActC02 struct {
	Kind string `json:"kind"` // write | cut | heal | deliver | drop | dup | restart
	I    int    `json:"i"`
	J    int    `json:"j,omitempty"`
	K    int    `json:"k,omitempty"`
}

type CaseC02 struct {
	Type string   `json:"type"`
	N    int      `json:"n"`
	Acts []ActC02 `json:"acts"`
}

func genC02(rt *rapid.T) CaseC02 {
	c := CaseC02{
		Type: rapid.SampledFrom([]string{"eventlog", "keyvalue", "docstore"}).Draw(rt, "type"),
		N:    rapid.IntRange(2, 4).Draw(rt, "n"),
	}
	max := 20
	if thorough() {
		max = 30
	}
	m := rapid.IntRange(2, max).Draw(rt, "nacts")
	for i := 0; i < m; i++ {
		a := ActC02{Kind: rapid.SampledFrom([]string{"write", "write", "write", "cut", "heal", "deliver", "deliver", "deliver", "drop", "dup", "restart", "gate", "release", "release", "dropexchange", "dropexchange", "dropall", "deliverall", "bounce"}).Draw(rt, "kind"),
			I: rapid.IntRange(0, c.N-1).Draw(rt, "i")}
		switch a.Kind {
		case "cut", "heal":
			a.J = rapid.IntRange(0, c.N-1).Draw(rt, "j")
		case "deliver", "drop", "dup", "release", "dropexchange":
			a.K = rapid.IntRange(0, 30).Draw(rt, "k")
		case "restart":
			a.K = rapid.IntRange(0, 1).Draw(rt, "lateLoad")
		case "bounce":
			a.J = rapid.IntRange(0, c.N-1).Draw(rt, "j")
		case "write":
			a.K = rapid.IntRange(0, 3).Draw(rt, "key")
		}
		c.Acts = append(c.Acts, a)
	}
	if rapid.IntRange(0, 3).Draw(rt, "tail") == 0 {
		// a write made behind a partition whose head exchange at the next heal is lost in both directions,
		// followed by another cut: only the final reconnect phase can repair it
		i := rapid.IntRange(0, c.N-1).Draw(rt, "ti")
		j := (i + 1 + rapid.IntRange(0, c.N-2).Draw(rt, "tj")) % c.N
		c.Acts = append(c.Acts,
			ActC02{Kind: "cut", I: i, J: j}, ActC02{Kind: "write", I: i, K: 1}, ActC02{Kind: "heal", I: i, J: j},
			ActC02{Kind: "dropexchange", I: i, K: 0}, ActC02{Kind: "dropexchange", I: i, K: 0}, ActC02{Kind: "dropexchange", I: i, K: 0},
			ActC02{Kind: "cut", I: i, J: j})
	}
	if rapid.IntRange(0, 3).Draw(rt, "tail2") == 0 {
		// writes whose announcements are all lost, then a write made above another replica's delivered write (an
		// entry naming several concurrent heads, one of which the others already know), then traffic the other way
		i := rapid.IntRange(0, c.N-1).Draw(rt, "t2i")
		j := (i + 1 + rapid.IntRange(0, c.N-2).Draw(rt, "t2j")) % c.N
		n := rapid.IntRange(1, 2).Draw(rt, "t2n")
		for k := 0; k < n; k++ {
			c.Acts = append(c.Acts, ActC02{Kind: "write", I: i, K: k}, ActC02{Kind: "dropall"})
		}
		c.Acts = append(c.Acts,
			ActC02{Kind: "write", I: j, K: 2}, ActC02{Kind: "deliverall"},
			ActC02{Kind: "write", I: i, K: 3}, ActC02{Kind: "deliverall"},
			ActC02{Kind: "write", I: j, K: 1}, ActC02{Kind: "deliverall"})
	}
	return c
}

func execC02(c CaseC02) *Outcome { return execC02x(c, false) }

// execC02x: with strictRestart, every restart is also judged by C05's clause - what the replica held before it
// stopped (acknowledged writes and entries reported as replicated) is there again after Open and Load.
func execC02x(c CaseC02, strictRestart bool) *Outcome {
	ctx := context.Background()
	o := &Outcome{}
	world.ResetHooks()
	cl, err := world.NewCluster(ctx, world.ClusterOpts{N: c.N, Type: c.Type})
	if err != nil {
		return fail("harness: cluster: %v", err)
	}
	defer cl.Close()
	w := cl.W
	if !cl.Settle(claimTimeout) {
		o.Inconclusive = true
		return o
	}
	w.AutoDeliver = false
	tr := newTracker()
	var acked []string
	cnt := 0
	faulty := false
	restarted := map[int]bool{}
	gated := map[int]bool{}
	settleStep := func() {
		// let what the previous step set in motion come to a standstill, so that the set of held messages the
		// next step picks from is a function of the history rather than of goroutine timing
		// (first of all every local write has been announced: the announcement is published by a listener
		// some time after the write call returns)
		world.WaitFor(func() bool {
			for _, st := range cl.Open() {
				r := st.Replicator()
				if world.HookCount("store.write.handled", r) < world.HookCount("store.addop.persisted", r) {
					return false
				}
			}
			return true
		}, 500*time.Millisecond)
		w.WaitQuiescent(cl.Open(), &world.QuiesceOpts{AllowHeld: true, StableOnly: true}, 500*time.Millisecond)
	}
	for ai, a := range c.Acts {
		settleStep()
		i := a.I % c.N
		switch a.Kind {
		case "write":
			s := cl.Stores[i]
			before := hashSetOf(s)
			op, err := writeAny(ctx, s, c.Type, a.K, 3, cnt)
			cnt++
			if err != nil {
				return fail("action %d: write on replica %d failed: %v", ai, i, err)
			}
			// concurrent merges may add entries too: find the one authored here
			found := ""
			for _, e := range s.OpLog().GetEntries().Slice() {
				h := e.GetHash().String()
				if !before[h] && e.GetIdentity().ID == s.Identity().ID && tr.ents[h].Hash == "" {
					found = h
					tr.ents[h] = entOf(e)
					tr.ops[h] = op
					tr.author[h] = i
					tr.past[h] = map[string]bool{}
					for _, n := range e.GetNext() {
						tr.past[h][n.String()] = true
					}
				}
			}
			if found == "" {
				return fail("action %d: the write call returned but no new local entry is in the log", ai)
			}
			acked = append(acked, found)
			for j := 0; j < c.N; j++ {
				if j != i && !w.Linked(i, j) {
					faulty = true
				}
			}
		case "cut":
			j := a.J % c.N
			if i != j {
				w.Cut(i, j)
			}
		case "heal":
			j := a.J % c.N
			if i != j {
				w.Heal(i, j)
			}
		case "deliver":
			if m := w.TakeHeld(a.K); m != nil {
				w.Deliver(m)
			}
		case "drop":
			if m := w.TakeHeld(a.K); m != nil {
				faulty = true
			}
		case "dropall":
			for m := w.TakeHeld(0); m != nil; m = w.TakeHeld(0) {
				faulty = true
			}
		case "deliverall":
			w.DeliverAllHeld()
		case "dropexchange":
			// lose a head exchange (direct-channel payload), counted from the most recent one
			if m := w.TakeHeldKind("direct", a.K%3); m != nil {
				faulty = true
				o.Labels = append(o.Labels, "head-exchange-lost")
			}
		case "dup":
			if m := w.TakeHeld(a.K); m != nil {
				w.Deliver(m)
				w.Deliver(m)
			}
		case "gate":
			// from now on every block fetch of replica i parks until the harness releases it
			w.Peers[i].SetGate(true)
			gated[i] = true
		case "release":
			if w.Peers[i].ReleaseParked(a.K) {
				o.Labels = append(o.Labels, "fetch-released-by-hand")
			}
		case "bounce":
			// the database is closed and opened again inside the same running instance (a store restart, not a
			// process restart); while it is closed a peer that has just seen this one on the topic sends it its
			// heads: a head exchange naming a database that is not open there at that moment
			if gated[i] {
				w.Peers[i].SetGate(false)
				gated[i] = false
			}
			if err := cl.Stores[i].Close(); err != nil {
				return fail("action %d: closing the store of replica %d failed: %v", ai, i, err)
			}
			if j := a.J % c.N; j != i && w.Linked(i, j) {
				heads, err := cloneHeads(world.Heads(cl.Stores[j]))
				if err != nil {
					return fail("harness: %v", err)
				}
				msg, err := headsMessage(cl.Addr, heads)
				if err != nil {
					return fail("harness: %v", err)
				}
				if w.InjectDirect(j, i, msg) {
					o.Labels = append(o.Labels, "head-exchange-while-store-closed")
				}
				time.Sleep(5 * time.Millisecond) // (lets the instance take the payload while the store is closed)
			}
			s2, err := w.Peers[i].DB.Open(ctx, cl.Addr, cl.OpenOpts(&orbitdb.CreateDBOptions{}))
			if err != nil {
				return fail("action %d: reopening the database on replica %d failed: %v", ai, i, err)
			}
			cl.Stores[i] = s2
			if err := s2.Load(ctx, -1); err != nil {
				return fail("action %d: Load after reopening on replica %d failed: %v", ai, i, err)
			}
			restarted[i] = true
			if len(acked) > 0 {
				faulty = true
			}
		case "restart":
			heldBefore := hashSetOf(cl.Stores[i])
			if gated[i] {
				// opening the database reads its manifest: not while the gate is on
				w.Peers[i].SetGate(false)
				gated[i] = false
			}
			if a.K%2 == 1 {
				// the application loads late: the instance is up and the database open (the peers see it join and
				// hand it their heads, which are merged) before Load reads the replica's own cached heads back
				p := w.Peers[i]
				p.StopInstance()
				if _, err := p.StartInstance(ctx); err != nil {
					return fail("action %d: restart of replica %d failed: %v", ai, i, err)
				}
				s2, err := p.DB.Open(ctx, cl.Addr, cl.OpenOpts(&orbitdb.CreateDBOptions{}))
				if err != nil {
					return fail("action %d: reopening on replica %d failed: %v", ai, i, err)
				}
				cl.Stores[i] = s2
				w.DeliverAllHeld()
				w.WaitQuiescent([]iface.Store{s2}, &world.QuiesceOpts{AllowHeld: true}, 2*time.Second)
				w.DeliverAllHeld()
				w.WaitQuiescent([]iface.Store{s2}, &world.QuiesceOpts{AllowHeld: true}, 2*time.Second)
				if err := s2.Load(ctx, -1); err != nil {
					return fail("action %d: Load after a late restart of replica %d failed: %v", ai, i, err)
				}
				o.Labels = append(o.Labels, "restart-with-late-load")
			} else if err := cl.Reopen(ctx, i); err != nil {
				return fail("action %d: restart of replica %d failed: %v", ai, i, err)
			}
			restarted[i] = true
			if len(acked) > 0 {
				faulty = true
			}
			if strictRestart {
				now := hashSetOf(cl.Stores[i])
				lost := 0
				for h := range heldBefore {
					if !now[h] {
						lost++
					}
				}
				if lost > 0 {
					return fail("action %d: after the restart of replica %d (late load: %v) and Load, %d of the %d entries it held before stopping are missing", ai, i, a.K%2 == 1, lost, len(heldBefore))
				}
			}
		}
	}
	_ = settleStep
	// final phase: no more writes, every pair reconnects (each side sees the other join),
	// everything in flight is delivered, no further fault
	w.AutoDeliver = true
	for i := range gated {
		w.Peers[i].SetGate(false) // blocks held by a connected peer are fetchable again
	}
	for i := 0; i < c.N; i++ {
		for j := i + 1; j < c.N; j++ {
			if w.Linked(i, j) {
				w.Cut(i, j)
			}
			w.Heal(i, j)
		}
	}
	w.DeliverAllHeld()
	err = w.WaitClaim("every replica holds every acknowledged write", func() bool {
		for i := 0; i < c.N; i++ {
			have := hashSetOf(cl.Stores[i])
			for _, h := range acked {
				if !have[h] {
					return false
				}
			}
		}
		return w.Quiescent(cl.Open(), nil)
	}, cl.Open(), nil, claimTimeout)
	if err != nil {
		if err == world.ErrInconclusive {
			o.Inconclusive = true
			return o
		}
		detail := ""
		for i := 0; i < c.N; i++ {
			have := hashSetOf(cl.Stores[i])
			missing := 0
			for _, h := range acked {
				if !have[h] {
					missing++
				}
			}
			st := world.Stats(cl.Stores[i])
			detail += fmt.Sprintf(" replica %d: %d/%d writes (missing %d; queued %d fetching %d)", i, len(acked)-missing, len(acked), missing, st.Queued, st.Fetching)
		}
		return fail("after the final reconnect phase:%s: %v", detail, err)
	}
	// same entries => same state, and equal to the model
	ref, err := viewOf(cl.Stores[0], c.Type)
	if err != nil {
		return fail("view: %v", err)
	}
	for i := 0; i < c.N; i++ {
		if got := len(hashSetOf(cl.Stores[i])); got != len(acked) {
			return fail("replica %d holds %d entries, %d writes were acknowledged", i, got, len(acked))
		}
		if _, err := tr.modelOrder(hashSetOf(cl.Stores[i])); err != nil {
			return fail("replica %d: %v", i, err)
		}
		order, _ := tr.modelOrder(hashSetOf(cl.Stores[i]))
		if got := world.Hashes(cl.Stores[i]); !eqStrings(got, order) {
			return fail("replica %d: Values() differs from the (time,id) order", i)
		}
		v, err := viewOf(cl.Stores[i], c.Type)
		if err != nil {
			return fail("view: %v", err)
		}
		if !eqStrings(v, ref) {
			return fail("replica %d shows a different state than replica 0 although both hold every write", i)
		}
	}
	_ = model.Op{}
	_ = iface.CreateDBOptions{}
	o.NonTrivial = faulty && len(acked) > 0
	if len(restarted) > 0 {
		o.Labels = append(o.Labels, "restart")
	}
	if faulty {
		o.Labels = append(o.Labels, "fault-before-final-phase")
	}
	o.Labels = append(o.Labels, fmt.Sprintf("n=%d", c.N))
	return o
}

func TestC02(t *testing.T) { runCheck(t, "C02", genC02, execC02) }

// TestC05Restarts: the fault scripts of C02 (replication on, partitions, lost announcements), every restart judged
// by C05's clause as well; one restart with a late Load is appended to every case.
func TestC05Restarts(t *testing.T) {
	runCheck(t, "C05", func(rt *rapid.T) CaseC02 {
		c := genC02(rt)
		c.Acts = append(c.Acts, ActC02{Kind: "deliverall"}, ActC02{Kind: "restart", I: rapid.IntRange(0, c.N-1).Draw(rt, "ri"), K: 1})
		return c
	}, func(c CaseC02) *Outcome { return execC02x(c, true) })
}
