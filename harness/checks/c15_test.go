package checks

import (
	"context"
	"fmt"
	"testing"
	"time"

	"berty.tech/go-ipfs-log/identityprovider"
	orbitdb "berty.tech/go-orbit-db"
	"berty.tech/go-orbit-db/address"
	"berty.tech/go-orbit-db/iface"
	"berty.tech/go-orbit-db/stores/eventlogstore"
	coreiface "github.com/ipfs/kubo/core/coreiface"
	"pgregory.net/rapid"
	"verif/harness/model"
	"verif/harness/world"
)

// C15 — loading with a limit yields the most recent entries, never fails on short logs.

type StepC15 struct {
	Kind string `json:"kind"` // local | remote | merge
	W    int    `json:"w,omitempty"`
	N    int    `json:"n,omitempty"`
}

type CaseC15 struct {
	Others     int       `json:"others"` // other writers (0 = single-writer chain)
	Steps      []StepC15 `json:"steps"`
	Limit      int       `json:"limit"`
	ViaMaxHist bool      `json:"via_max_history"`
	RefCount   int       `json:"ref_count,omitempty"`
	More       []int     `json:"more,omitempty"` // further limits, each loaded by a fresh instance on the same disk afterwards
	// LiveFirst: before any restart, the instance that wrote and merged the entries (it holds the whole log in
	// memory, never cut by an earlier load) calls Load(limit) itself; the same rule applies. Loads with a
	// larger limit after a smaller one on the same open instance are not generated (the in-memory log, once
	// cut, is not extended again by the pinned tree; DESIGN section 7)
	LiveFirst bool `json:"live_first,omitempty"`
}

func genC15(rt *rapid.T) CaseC15 {
	c := CaseC15{Others: rapid.IntRange(1, 2).Draw(rt, "others")}
	n := rapid.IntRange(2, 10).Draw(rt, "nsteps")
	for i := 0; i < n; i++ {
		st := StepC15{Kind: rapid.SampledFrom([]string{"local", "local", "remote", "remote", "merge", "merge"}).Draw(rt, "kind")}
		switch st.Kind {
		case "local":
			st.N = rapid.IntRange(1, 5).Draw(rt, "n")
		case "remote":
			st.W = rapid.IntRange(1, c.Others).Draw(rt, "w")
			st.N = rapid.IntRange(1, 5).Draw(rt, "n")
		case "merge":
			st.W = rapid.IntRange(1, c.Others).Draw(rt, "w")
		}
		c.Steps = append(c.Steps, st)
	}
	c.Limit = rapid.OneOf(rapid.IntRange(-3, 0), rapid.IntRange(1, 12), rapid.IntRange(1, 12), rapid.IntRange(13, 60)).Draw(rt, "limit")
	c.ViaMaxHist = rapid.Bool().Draw(rt, "viaMaxHistory")
	if rapid.Bool().Draw(rt, "again") {
		c.More = rapid.SliceOfN(rapid.OneOf(rapid.IntRange(-1, 0), rapid.IntRange(1, 12), rapid.IntRange(13, 60)), 1, 2).Draw(rt, "more")
	}
	c.LiveFirst = rapid.IntRange(0, 3).Draw(rt, "liveFirst") == 0
	return c
}

func gridC15() []CaseC15 {
	var out []CaseC15
	for T := 0; T <= 12; T++ {
		for n := -3; n <= T+5; n++ {
			c := CaseC15{Limit: n, ViaMaxHist: (T+n)%3 == 0}
			if T > 0 {
				c.Steps = []StepC15{{Kind: "local", N: T}}
			}
			out = append(out, c)
		}
	}
	// longer chains, where reference links (skip pointers) come into play
	for _, T := range []int{20, 40, 70} {
		for _, n := range []int{1, 2, 7, T / 2, T - 1, T, T + 1} {
			c := CaseC15{Limit: n, Steps: []StepC15{{Kind: "local", N: T}}}
			out = append(out, c)
		}
	}
	return out
}

func execC15(c CaseC15) *Outcome {
	ctx := context.Background()
	o := &Outcome{}
	world.ResetHooks()
	no := false
	cl, err := world.NewCluster(ctx, world.ClusterOpts{N: 1 + c.Others, Type: "eventlog", Replicate: &no})
	if err != nil {
		return fail("harness: cluster: %v", err)
	}
	defer cl.Close()
	tr := newTracker()
	cnt := 0
	add := func(w, n int) error {
		s := cl.Stores[w]
		for i := 0; i < n; i++ {
			before := hashSetOf(s)
			payload := []byte(fmt.Sprintf("w%d-%d", w, cnt))
			cnt++
			if _, err := s.(iface.EventLogStore).Add(ctx, payload); err != nil {
				return fmt.Errorf("Add failed: %v", err)
			}
			if err := tr.noteWrites(s, w, before, []model.Op{{Kind: "ADD", Val: payload}}); err != nil {
				return err
			}
		}
		return nil
	}
	merged := false
	for i, st := range c.Steps {
		switch st.Kind {
		case "local":
			if err := add(0, st.N); err != nil {
				return fail("step %d: %v", i, err)
			}
		case "remote":
			if c.Others == 0 {
				continue
			}
			if err := add(1+(st.W-1)%c.Others, st.N); err != nil {
				return fail("step %d: %v", i, err)
			}
		case "merge":
			if c.Others == 0 {
				continue
			}
			src := 1 + (st.W-1)%c.Others
			if cl.Stores[src].OpLog().Len() == 0 {
				continue
			}
			if err := syncFrom(cl, 0, src); err != nil {
				if err == world.ErrInconclusive {
					o.Inconclusive = true
					return o
				}
				return fail("step %d: merge: %v", i, err)
			}
			merged = true
		}
	}
	full, err := tr.checkOrder(cl.Stores[0])
	if err != nil {
		return fail("before restart: %v", err)
	}
	total := len(full)
	singleWriter := true
	for _, h := range full {
		if tr.author[h] != 0 {
			singleWriter = false
		}
	}

	if c.LiveFirst && total > 0 {
		s := cl.Stores[0]
		if err := s.Load(ctx, c.Limit); err != nil {
			return fail("Load(%d) on the open instance holding the log of %d entries failed: %v", c.Limit, total, err)
		}
		minus1 := -1
		got, err := listHashes(s.(iface.EventLogStore), &iface.StreamOptions{Amount: &minus1})
		if err != nil {
			return fail("List after Load failed: %v", err)
		}
		want := total
		if c.Limit > 0 && c.Limit < total {
			want = c.Limit
		}
		desc := fmt.Sprintf("Load(%d) on the open instance that holds the whole log of %d entries", c.Limit, total)
		if len(got) != want {
			return fail("%s lists %d entries, expected %d", desc, len(got), want)
		}
		if !isSubsequence(got, full) {
			return fail("%s lists entries out of log order: %v vs full %v", desc, shortAll(got), shortAll(full))
		}
		if want > 0 && got[len(got)-1] != full[total-1] {
			return fail("%s does not include the newest entry", desc)
		}
		if (singleWriter || c.Limit <= 0) && !eqStrings(got, full[total-want:]) {
			return fail("%s does not list exactly the %d most recent entries", desc, want)
		}
		o.Labels = append(o.Labels, "load-on-the-open-instance")
		if want < total {
			o.Labels = append(o.Labels, "load-on-the-open-instance-cuts")
		}
	}

	// restart peer 0 alone: the other peers are cut off, its node serves local blocks only
	// the persisted log is loaded once per limit, each time by a fresh instance on the same disk: loading must
	// leave what is persisted as it was
	p0 := cl.W.Peers[0]
	for stage, limit := range append([]int{c.Limit}, c.More...) {
		p0.StopInstance()
		for j := 1; j <= c.Others; j++ {
			cl.W.Cut(0, j)
		}
		p0.Offline = true
		db, err := p0.StartInstance(ctx)
		if err != nil {
			return fail("harness: restart: %v", err)
		}
		callArg := limit
		if c.ViaMaxHist {
			mh := limit
			db.RegisterStoreType("eventlog", func(api coreiface.CoreAPI, id *identityprovider.Identity, a address.Address, opts *iface.NewStoreOptions) (iface.Store, error) {
				opts.MaxHistory = &mh
				return eventlogstore.NewOrbitDBEventLogStore(api, id, a, opts)
			})
			callArg = -1
			if limit%2 == 0 {
				callArg = 0
			}
		}
		s, err := db.Open(ctx, cl.Addr, &orbitdb.CreateDBOptions{Replicate: &no})
		if err != nil {
			return fail("harness: reopen: %v", err)
		}
		cached := 0
		for _, k := range []string{"_localHeads", "_remoteHeads"} {
			if b, err := p0.Disk.Store(world.CachePath("/verif-disk", s.Address())).Get(ctx, dsKey(k)); err == nil && len(b) > 2 {
				cached += countJSONArray(b)
			}
		}
		lctx, cancel := context.WithTimeout(ctx, 60*time.Second)
		defer cancel()
		if err := s.Load(lctx, callArg); err != nil {
			if lctx.Err() != nil {
				o.Inconclusive = true
				return o
			}
			return fail("Load(%d)%s on a log of %d entries failed: %v", callArg, mhNoteL(c, limit), total, err)
		}
		minus1 := -1
		got, err := listHashes(s.(iface.EventLogStore), &iface.StreamOptions{Amount: &minus1})
		if err != nil {
			return fail("List after Load failed: %v", err)
		}
		want := total
		if limit > 0 && limit < total {
			want = limit
		}
		desc := fmt.Sprintf("Load(%d)%s on a persisted log of %d entries (%d cached heads)", callArg, mhNoteL(c, limit), total, cached)
		if len(got) != want {
			return fail("%s lists %d entries, expected %d", desc, len(got), want)
		}
		if !isSubsequence(got, full) {
			return fail("%s lists entries out of log order: %v vs full %v", desc, shortAll(got), shortAll(full))
		}
		if want > 0 && got[len(got)-1] != full[total-1] {
			return fail("%s does not include the newest entry", desc)
		}
		if singleWriter || limit <= 0 {
			if !eqStrings(got, full[total-want:]) {
				return fail("%s does not list exactly the %d most recent entries", desc, want)
			}
		}
		if vals := world.Hashes(s); !eqStrings(vals, got) {
			return fail("%s: OpLog().Values() and List(-1) disagree", desc)
		}
		o.NonTrivial = o.NonTrivial || limit >= total || limit <= 0 || cached >= 2
		if limit >= total {
			o.Labels = append(o.Labels, "limit>=total")
		}
		if limit <= 0 {
			o.Labels = append(o.Labels, "limit<=0")
		}
		if cached >= 2 {
			o.Labels = append(o.Labels, "multi-head-cache")
			if limit > 0 && limit < total {
				o.Labels = append(o.Labels, "multi-head-cache+limit-cuts")
			}
		}
		if limit > 0 && limit < total {
			o.Labels = append(o.Labels, "limit-cuts")
		}
		if merged {
			o.Labels = append(o.Labels, "replicated-entries")
		}
		if c.ViaMaxHist {
			o.Labels = append(o.Labels, "via-max-history")
		}
		if stage > 0 {
			o.Labels = append(o.Labels, "loaded-again-after-an-earlier-load")
		}
	}
	return o
}

func mhNoteL(c CaseC15, limit int) string {
	if c.ViaMaxHist {
		return fmt.Sprintf(" with MaxHistory=%d", limit)
	}
	return ""
}

func TestC15(t *testing.T)     { runCheck(t, "C15", genC15, execC15) }
func TestC15Grid(t *testing.T) { runEnum(t, "C15", gridC15(), execC15) }
