package checks

import (
	"crypto/sha1"
	"encoding/json"
	"fmt"
	"sort"

	"berty.tech/go-orbit-db/iface"
	"berty.tech/go-orbit-db/stores/operation"
	cid "github.com/ipfs/go-cid"
	ds "github.com/ipfs/go-datastore"
)

func dsKey(k string) ds.Key { return ds.NewKey(k) }

func countJSONArray(b []byte) int {
	var arr []json.RawMessage
	if json.Unmarshal(b, &arr) != nil {
		return 0
	}
	return len(arr)
}

func sha(b []byte) []byte {
	h := sha1sum(b)
	return h[:6]
}

func sha1sum(b []byte) [20]byte { return sha1.Sum(b) }

func mustCid(s string) cid.Cid {
	c, err := cid.Decode(s)
	if err != nil {
		return cid.Undef
	}
	return c
}

func sortStrings(s []string) { sort.Strings(s) }

// replayOfLog folds the operations of the log the store holds, in the order Values() lists them, the last
// one on a key winning, and renders the result the way viewOf renders the store's own view.
func replayOfLog(s iface.Store, typ string) ([]string, error) {
	vals := s.OpLog().Values().Slice()
	if typ == "eventlog" {
		out := make([]string, 0, len(vals))
		for _, e := range vals {
			op, err := operation.ParseOperation(e)
			if err != nil {
				return nil, err
			}
			out = append(out, fmt.Sprintf("%s:%x", short(e.GetHash().String()), sha(op.GetValue())))
		}
		return out, nil
	}
	state := map[string][]byte{}
	for _, e := range vals {
		op, err := operation.ParseOperation(e)
		if err != nil {
			return nil, err
		}
		switch op.GetOperation() {
		case "PUT":
			if op.GetKey() != nil {
				state[*op.GetKey()] = op.GetValue()
			}
		case "DEL":
			if op.GetKey() != nil {
				delete(state, *op.GetKey())
			}
		case "PUTALL":
			for _, d := range op.GetDocs() {
				state[d.GetKey()] = d.GetValue()
			}
		}
	}
	var out []string
	for k, v := range state {
		if typ == "keyvalue" {
			out = append(out, fmt.Sprintf("%s=%x", k, sha(v)))
			continue
		}
		var d map[string]interface{}
		if err := json.Unmarshal(v, &d); err != nil {
			return nil, err
		}
		b, _ := json.Marshal(d)
		out = append(out, fmt.Sprintf("%x", sha(b)))
	}
	sort.Strings(out)
	return out, nil
}
