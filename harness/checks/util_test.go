package checks

import (
	"crypto/sha1"
	"encoding/json"
	"sort"

	cid "github.com/ipfs/go-cid"
	ds "github.com/ipfs/go-datastore"
)

func dsKey(k string) ds.Key { return ds.NewKey(k) }

func countJSONArray(b []byte) int {
	var arr []json.RawMessage
	if json.Unmarshal(b, &arr) != nil {
		return 0
	}
	return len(arr)
}

func sha(b []byte) []byte {
	h := sha1sum(b)
	return h[:6]
}

func sha1sum(b []byte) [20]byte { return sha1.Sum(b) }

func mustCid(s string) cid.Cid {
	c, err := cid.Decode(s)
	if err != nil {
		return cid.Undef
	}
	return c
}

func sortStrings(s []string) { sort.Strings(s) }
