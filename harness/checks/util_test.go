package checks

import (
	"encoding/json"

	ds "github.com/ipfs/go-datastore"
)

func dsKey(k string) ds.Key { return ds.NewKey(k) }

func countJSONArray(b []byte) int {
	var arr []json.RawMessage
	if json.Unmarshal(b, &arr) != nil {
		return 0
	}
	return len(arr)
}
