package checks

import (
	"context"
	"fmt"
	"sort"
	"sync"
	"testing"
	"time"

	ipfslog "berty.tech/go-ipfs-log"
	"berty.tech/go-ipfs-log/identityprovider"
	orbitdb "berty.tech/go-orbit-db"
	"berty.tech/go-orbit-db/address"
	"berty.tech/go-orbit-db/iface"
	"berty.tech/go-orbit-db/stores/documentstore"
	"berty.tech/go-orbit-db/stores/eventlogstore"
	"berty.tech/go-orbit-db/stores/kvstore"
	coreiface "github.com/ipfs/kubo/core/coreiface"
	"pgregory.net/rapid"
	"verif/harness/model"
	"verif/harness/world"
)

// C11 — cancelled or failed replication requests do not wedge later replication.

var c11Points = []string{"never", "before-call", "replicator.slot.before", "replicator.slot.dequeued", "parked-fetch", "replicator.fetch.done", "replicator.entry.beforeDone", "replicator.loadend.emit", "replicator.load.registered", "failed-fetch", "failed-parent", "aborted-parent", "returned-early"}

type ReqC11 struct {
	Heads []int  `json:"heads"` // indices into the honest entries (mod len)
	Point string `json:"point"`
	Nth   int    `json:"nth"` // cancel at the n-th arrival at the point (1-based)
}

type CaseC11 struct {
	Type        string     `json:"type"`
	Authors     int        `json:"authors"`
	Hist        []HistStep `json:"hist"`
	Concurrency int        `json:"concurrency"`
	Reqs        []ReqC11   `json:"reqs"`
	FinalNewer  bool       `json:"final_newer"`
}

func genC11(rt *rapid.T) CaseC11 {
	c := CaseC11{
		Type:        rapid.SampledFrom([]string{"eventlog", "keyvalue"}).Draw(rt, "type"),
		Authors:     rapid.IntRange(1, 3).Draw(rt, "authors"),
		Concurrency: rapid.IntRange(1, 2).Draw(rt, "concurrency"),
		FinalNewer:  rapid.Bool().Draw(rt, "newer"),
	}
	c.Hist = genHist(rt, c.Authors, 10)
	n := rapid.IntRange(1, 4).Draw(rt, "nreqs")
	for i := 0; i < n; i++ {
		c.Reqs = append(c.Reqs, ReqC11{
			Heads: rapid.SliceOfN(rapid.IntRange(0, 40), 1, 4).Draw(rt, "heads"),
			Point: rapid.SampledFrom(c11Points).Draw(rt, "point"),
			Nth:   rapid.IntRange(1, 4).Draw(rt, "nth"),
		})
	}
	return c
}

// gridC11 enumerates, for a few fixed short histories, every (point, n) for a single aborted request.
func gridC11() []CaseC11 {
	var out []CaseC11
	hists := [][]HistStep{
		{{Kind: "write", W: 0}, {Kind: "write", W: 0}, {Kind: "write", W: 0}},
		{{Kind: "write", W: 0}, {Kind: "write", W: 1}, {Kind: "write", W: 0}, {Kind: "merge", W: 0, From: 1}, {Kind: "write", W: 0}},
	}
	for hi, h := range hists {
		for _, conc := range []int{1, 2} {
			for _, p := range c11Points[1:] {
				for nth := 1; nth <= 3; nth++ {
					for _, heads := range [][]int{{99}, {0, 1, 99}} {
						out = append(out, CaseC11{Type: "eventlog", Authors: 1 + hi, Hist: h, Concurrency: conc,
							Reqs: []ReqC11{{Heads: heads, Point: p, Nth: nth}}, FinalNewer: nth%2 == 0})
					}
				}
			}
		}
	}
	return out
}

func withConcurrency(db orbitdb.OrbitDB, n uint) {
	db.RegisterStoreType("eventlog", func(api coreiface.CoreAPI, id *identityprovider.Identity, a address.Address, o *iface.NewStoreOptions) (iface.Store, error) {
		o.ReplicationConcurrency = n
		return eventlogstore.NewOrbitDBEventLogStore(api, id, a, o)
	})
	db.RegisterStoreType("keyvalue", func(api coreiface.CoreAPI, id *identityprovider.Identity, a address.Address, o *iface.NewStoreOptions) (iface.Store, error) {
		o.ReplicationConcurrency = n
		return kvstore.NewOrbitDBKeyValue(api, id, a, o)
	})
	db.RegisterStoreType("docstore", func(api coreiface.CoreAPI, id *identityprovider.Identity, a address.Address, o *iface.NewStoreOptions) (iface.Store, error) {
		o.ReplicationConcurrency = n
		return documentstore.NewOrbitDBDocumentStore(api, id, a, o)
	})
}

func execC11(c CaseC11) *Outcome {
	ctx := context.Background()
	o := &Outcome{}
	world.ResetHooks()
	A := c.Authors
	no := false
	openOn := []int{}
	for i := 1; i < A; i++ {
		openOn = append(openOn, i)
	}
	cl, err := world.NewCluster(ctx, world.ClusterOpts{N: A + 1, Type: c.Type, Replicate: &no, OpenOn: openOn})
	if err != nil {
		return fail("harness: cluster: %v", err)
	}
	defer cl.Close()
	V := A
	pv := cl.W.Peers[V]
	withConcurrency(pv.DB, uint(c.Concurrency))
	v, err := pv.DB.Open(ctx, cl.Addr, &orbitdb.CreateDBOptions{Replicate: &no})
	if err != nil {
		return fail("harness: open victim: %v", err)
	}
	cl.Stores[V] = v
	if err := v.Load(ctx, -1); err != nil {
		return fail("harness: load: %v", err)
	}
	tr := newTracker()
	cnt := 0
	if _, out := buildHistory(ctx, cl, tr, c.Type, A, c.Hist, &cnt); out != nil {
		return out
	}
	{
		before := hashSetOf(cl.Stores[0])
		op, err := writeAny(ctx, cl.Stores[0], c.Type, 0, 2, cnt)
		cnt++
		if err != nil {
			return fail("harness: %v", err)
		}
		if err := tr.noteWrites(cl.Stores[0], 0, before, []model.Op{op}); err != nil {
			return fail("harness: %v", err)
		}
	}
	honest := append([]string{}, tr.seq...)
	entryOf := func(h string) ipfslog.Entry {
		for i := 0; i < A; i++ {
			if e, ok := cl.Stores[i].OpLog().Get(mustCid(h)); ok {
				return e
			}
		}
		return nil
	}

	abortedWithWork := false
	returnedEarly := false
	for ri, rq := range c.Reqs {
		returnedEarly = false
		var heads []ipfslog.Entry
		for _, hi := range rq.Heads {
			heads = append(heads, entryOf(honest[hi%len(honest)]))
		}
		heads, err := cloneHeads(heads)
		if err != nil {
			return fail("harness: %v", err)
		}
		rctx, cancel := context.WithCancel(ctx)
		var mu sync.Mutex
		arrivals := 0
		fired := false
		remove := func() {}
		if rq.Point != "never" && rq.Point != "before-call" && rq.Point != "parked-fetch" && rq.Point != "failed-fetch" && rq.Point != "failed-parent" && rq.Point != "aborted-parent" && rq.Point != "returned-early" {
			remove = world.AddHook(func(name string, subject interface{}, args []interface{}) {
				if name != rq.Point || subject != interface{}(v.Replicator()) {
					return
				}
				mu.Lock()
				arrivals++
				hit := arrivals == rq.Nth && !fired
				if hit {
					fired = true
				}
				mu.Unlock()
				if hit {
					// (the load-end point is reached with the replicator's locks held: no state query there)
					if name == "replicator.loadend.emit" {
						abortedWithWork = true
					} else if st := world.Stats(v); st.Queued+st.Added+st.Fetching > 0 {
						abortedWithWork = true
					}
					cancel()
				}
			})
		}
		switch rq.Point {
		case "before-call":
			cancel()
			abortedWithWork = true
			_ = v.Sync(rctx, heads)
		case "parked-fetch":
			pv.SetGate(true)
			_ = v.Sync(rctx, heads)
			if world.WaitFor(func() bool { return len(pv.Parked()) > 0 }, 2*time.Second) {
				for k := 1; k < rq.Nth; k++ {
					pv.ReleaseParked(0)
					time.Sleep(300 * time.Microsecond)
				}
				abortedWithWork = true
				cancel()
				time.Sleep(200 * time.Microsecond)
			}
			pv.SetGate(false)
		case "failed-fetch":
			// the n-th block read of the request fails (I/O error, provider gone); nothing is cancelled
			pv.SetGate(true)
			_ = v.Sync(rctx, heads)
			if world.WaitFor(func() bool { return len(pv.Parked()) > 0 }, 2*time.Second) {
				for k := 1; k < rq.Nth; k++ {
					pv.ReleaseParked(0)
					time.Sleep(300 * time.Microsecond)
				}
				if world.WaitFor(func() bool { return len(pv.Parked()) > 0 }, 200*time.Millisecond) {
					abortedWithWork = true
					pv.FailParked(0, fmt.Errorf("simulated read failure"))
					time.Sleep(200 * time.Microsecond)
				}
			}
			pv.SetGate(false)
		case "returned-early":
			// a synchronous request (LoadMoreFrom returns when the replicator's Load returns) is cancelled while its
			// n-th block read is outstanding, and that read does not notice the cancellation until it completes.
			// If the call nevertheless returns, the caller is entitled to make its next request at once: the final
			// request below is then made while the read is still outstanding, and must still bring everything
			pv.SetGateHard()
			ret := make(chan struct{})
			hs, _ := cloneHeads(heads)
			go func() {
				world.LoadMoreFrom(rctx, v, hs)
				close(ret)
			}()
			if world.WaitFor(func() bool { return len(pv.Parked()) > 0 }, 2*time.Second) {
				for k := 1; k < rq.Nth; k++ {
					pv.ReleaseParked(0)
					time.Sleep(300 * time.Microsecond)
				}
				if world.WaitFor(func() bool { return len(pv.Parked()) > 0 }, 200*time.Millisecond) {
					abortedWithWork = true
					cancel()
					select {
					case <-ret:
						// returned with a read still outstanding: the next request follows immediately
						returnedEarly = true
					case <-time.After(300 * time.Millisecond):
					}
				}
			}
			if returnedEarly && ri == len(c.Reqs)-1 {
				// (the read is released after the final request has been made, see below)
				o.Labels = append(o.Labels, "request-returned-with-a-read-outstanding")
			} else {
				returnedEarly = false
				pv.SetGate(false)
				select {
				case <-ret:
				case <-time.After(20 * time.Second):
				}
			}
		case "failed-parent", "aborted-parent":
			// exactly one block is not obtained - the n-th parent link of an entry with several parents (an entry
			// written after two writers' branches were merged), every other block of the request is served: the read
			// fails, or the request is cancelled while that read is the only one outstanding
			var target string
			seen := map[string]bool{}
			stack := append([]ipfslog.Entry{}, heads...)
			for len(stack) > 0 && target == "" {
				e := stack[0]
				stack = stack[1:]
				if e == nil || seen[e.GetHash().String()] {
					continue
				}
				seen[e.GetHash().String()] = true
				if nx := e.GetNext(); len(nx) >= 2 {
					target = nx[(rq.Nth-1)%len(nx)].String()
				}
				for _, n := range e.GetNext() {
					if pe := entryOf(n.String()); pe != nil {
						stack = append(stack, pe)
					}
				}
			}
			if target == "" || world.Has(v, target) {
				_ = v.Sync(rctx, heads)
				break
			}
			pv.SetGate(true)
			_ = v.Sync(rctx, heads)
			hit := false
			until := time.Now().Add(3 * time.Second)
			for time.Now().Before(until) {
				ps := pv.Parked()
				if len(ps) == 0 {
					if cl.W.WaitQuiescent([]iface.Store{v}, nil, 20*time.Millisecond) {
						break
					}
					continue
				}
				if len(ps) == 1 && ps[0].Cid.String() == target {
					hit = true
					abortedWithWork = true
					if rq.Point == "failed-parent" {
						// (that block stays unreadable for as long as the request lasts: every read of it fails)
						pv.FailParked(0, fmt.Errorf("simulated read failure"))
						continue
					}
					cancel()
					time.Sleep(200 * time.Microsecond)
					break
				}
				for k, f := range ps {
					if f.Cid.String() != target {
						pv.ReleaseParked(k)
						break
					}
				}
			}
			pv.SetGate(false)
			if hit {
				o.Labels = append(o.Labels, "one-parent-of-a-merge-entry-not-obtained")
			}
		default:
			_ = v.Sync(rctx, heads)
		}
		// let the request run out (or wedge): the final request decides
		if !returnedEarly {
			cl.W.WaitQuiescent([]iface.Store{v}, nil, 2*time.Second)
		}
		remove()
		cancel()
		_ = ri
	}

	// the final, uncancelled request
	if c.FinalNewer {
		before := hashSetOf(cl.Stores[0])
		op, err := writeAny(ctx, cl.Stores[0], c.Type, 1, 2, cnt)
		cnt++
		if err != nil {
			return fail("harness: %v", err)
		}
		if err := tr.noteWrites(cl.Stores[0], 0, before, []model.Op{op}); err != nil {
			return fail("harness: %v", err)
		}
	}
	want := map[string]bool{}
	var finalHeads []ipfslog.Entry
	for a := 0; a < A; a++ {
		if cl.Stores[a].OpLog().Len() == 0 {
			continue
		}
		for _, h := range world.HashSet(cl.Stores[a]) {
			want[h] = true
		}
	}
	// the heads of the union of the authors' logs (an author's own head that another author has built upon is not
	// announced separately: what lies below a merge entry is only reachable through it)
	{
		named := map[string]bool{}
		for h := range want {
			if e := entryOf(h); e != nil {
				for _, n := range e.GetNext() {
					named[n.String()] = true
				}
			}
		}
		for _, h := range honestOrderOf(want) {
			if !named[h] {
				finalHeads = append(finalHeads, entryOf(h))
			}
		}
	}
	finalHeads, err = cloneHeads(finalHeads)
	if err != nil {
		return fail("harness: %v", err)
	}
	if err := v.Sync(ctx, finalHeads); err != nil {
		return fail("the final, uncancelled Sync returned %v", err)
	}
	if returnedEarly {
		// the previous request had returned with a block read outstanding: it completes only now
		time.Sleep(2 * time.Millisecond)
		pv.SetGate(false)
	}
	err = cl.W.WaitClaim("every entry reachable from the heads of the final request is visible", func() bool {
		have := hashSetOf(v)
		for h := range want {
			if !have[h] {
				return false
			}
		}
		return cl.W.Quiescent([]iface.Store{v}, nil)
	}, []iface.Store{v}, nil, claimTimeout)
	if err != nil {
		if err == world.ErrInconclusive {
			// a load that never returns although nothing is held by the harness is the wedge itself
			r := v.Replicator()
			st := world.Stats(v)
			if world.HookCount("replicator.load.enter", r) > world.HookCount("replicator.load.exit", r) && len(pv.Parked()) == 0 {
				return fail("after aborted requests %s the final request never completes: %d load call(s) still running with nothing left to fetch (queued %d, added %d, fetching %d), %d of %d entries visible", reqSummary(c.Reqs), world.HookCount("replicator.load.enter", r)-world.HookCount("replicator.load.exit", r), st.Queued, st.Added, st.Fetching, len(hashSetOf(v)), len(want))
			}
			o.Inconclusive = true
			return o
		}
		st := world.Stats(v)
		return fail("after aborted requests %s (concurrency %d) the final uncancelled request left %d of %d entries missing (replicator: queued %d, added %d, fetching %d, fetched %d, buffered %d): %v",
			reqSummary(c.Reqs), c.Concurrency, len(want)-countIn(hashSetOf(v), want), len(want), st.Queued, st.Added, st.Fetching, st.Fetched, st.Buffered, err)
	}
	// equal to a control replica that only received the final request: same set, order and view as the model
	if len(hashSetOf(v)) != len(want) {
		return fail("the replica holds %d entries, the final heads reach %d", len(hashSetOf(v)), len(want))
	}
	if _, err := tr.checkOrder(v); err != nil {
		return fail("%v", err)
	}
	ref, err := viewOf(cl.Stores[0], c.Type)
	if A == 1 && err == nil {
		got, _ := viewOf(v, c.Type)
		if !eqStrings(got, ref) {
			return fail("view differs from the author's view of the same entries")
		}
	}
	o.NonTrivial = abortedWithWork
	for _, rq := range c.Reqs {
		o.Labels = append(o.Labels, "point:"+rq.Point)
	}
	return o
}

func countIn(have map[string]bool, want map[string]bool) int {
	n := 0
	for h := range want {
		if have[h] {
			n++
		}
	}
	return n
}

func reqSummary(rs []ReqC11) string {
	s := ""
	for _, r := range rs {
		s += fmt.Sprintf("[%d heads, cancel at %s #%d]", len(r.Heads), r.Point, r.Nth)
	}
	return s
}

// honestOrderOf lists the keys of set in a fixed order.
func honestOrderOf(set map[string]bool) []string {
	out := make([]string, 0, len(set))
	for h := range set {
		out = append(out, h)
	}
	sort.Strings(out)
	return out
}

func TestC11(t *testing.T)     { runCheck(t, "C11", genC11, execC11) }
func TestC11Grid(t *testing.T) { runEnum(t, "C11", gridC11(), execC11) }
