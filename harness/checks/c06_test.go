package checks

import (
	orbitdb "berty.tech/go-orbit-db"
	"bytes"
	"context"
	"fmt"
	"testing"

	"berty.tech/go-orbit-db/iface"
	"pgregory.net/rapid"
	"verif/harness/model"
	"verif/harness/world"
)

// C06 — key-value view == last-writer-wins replay of the log in causal order.

var kvKeys = []string{"a", "A", "", "k/1", "ключ", "a b", "é", "long-key-0123456789-0123456789-0123456789"}

var kvVals = [][]byte{nil, {}, []byte("x"), {0, 1, 2, 255, 254}, []byte("{\"json\":true}"), bytes.Repeat([]byte("v"), 3000)}

type KVOp struct {
	Kind string `json:"kind"` // put | del | sync | put-merge-inside | del-merge-inside | reopen (the replica restarts and rebuilds its view from storage)
	W    int    `json:"w"`
	Key  int    `json:"key,omitempty"`
	Val  int    `json:"val,omitempty"`
	Tag  int    `json:"tag,omitempty"`
	From int    `json:"from,omitempty"`
}

type CaseC06 struct {
	Writers int    `json:"writers"`
	Ops     []KVOp `json:"ops"`
}

func genC06(rt *rapid.T) CaseC06 {
	c := CaseC06{Writers: rapid.IntRange(1, 3).Draw(rt, "writers")}
	maxOps := 16
	if thorough() {
		maxOps = 30
	}
	n := rapid.IntRange(1, maxOps).Draw(rt, "nops")
	for i := 0; i < n; i++ {
		kinds := []string{"put", "put", "put", "put", "del", "del", "del", "reopen", "rsync", "rsync", "rreopen"}
		if c.Writers > 1 {
			kinds = append(kinds, "sync", "sync", "put-merge-inside", "del-merge-inside")
		}
		op := KVOp{Kind: rapid.SampledFrom(kinds).Draw(rt, "kind"), W: rapid.IntRange(0, c.Writers-1).Draw(rt, "w")}
		switch op.Kind {
		case "put":
			op.Key = rapid.IntRange(0, len(kvKeys)-1).Draw(rt, "key")
			op.Val = rapid.IntRange(0, len(kvVals)-1).Draw(rt, "val")
			op.Tag = rapid.IntRange(0, 9).Draw(rt, "tag")
		case "del":
			op.Key = rapid.IntRange(0, len(kvKeys)-1).Draw(rt, "key")
		case "put-merge-inside", "del-merge-inside":
			op.Key = rapid.IntRange(0, len(kvKeys)-1).Draw(rt, "key")
			op.Val = rapid.IntRange(0, len(kvVals)-1).Draw(rt, "val")
			op.Tag = rapid.IntRange(0, 9).Draw(rt, "tag")
			op.From = rapid.IntRange(0, c.Writers-1).Draw(rt, "from")
		case "sync", "rsync":
			op.From = rapid.IntRange(0, c.Writers-1).Draw(rt, "from")
		}
		c.Ops = append(c.Ops, op)
	}
	return c
}

func kvValue(v, tag int) []byte {
	b := kvVals[v]
	if len(b) == 0 {
		return b
	}
	return append(append([]byte{}, b...), byte('0'+tag))
}

func checkKV(tr *tracker, s iface.Store) error {
	ctx := context.Background()
	kv := s.(iface.KeyValueStore)
	order, err := tr.checkOrder(s)
	if err != nil {
		return err
	}
	want := model.Replay(tr.opsIn(order))
	all := kv.All()
	for k, v := range want {
		g, ok := all[k]
		if !ok {
			return fmt.Errorf("All() lacks key %q which the replay holds", k)
		}
		if !bytes.Equal(g, v) {
			return fmt.Errorf("All()[%q] = %q, replay gives %q", k, trunc(g), trunc(v))
		}
	}
	for k := range all {
		if _, ok := want[k]; !ok {
			return fmt.Errorf("All() holds key %q which the replay does not (deleted or never put)", k)
		}
	}
	for _, k := range kvKeys {
		g, err := kv.Get(ctx, k)
		if err != nil {
			return fmt.Errorf("Get(%q) failed: %v", k, err)
		}
		if !bytes.Equal(g, want[k]) {
			return fmt.Errorf("Get(%q) = %q, replay gives %q", k, trunc(g), trunc(want[k]))
		}
	}
	return nil
}

func trunc(b []byte) string {
	if len(b) > 24 {
		return fmt.Sprintf("%s…(%d bytes)", b[:24], len(b))
	}
	return string(b)
}

func execC06(c CaseC06) *Outcome {
	ctx := context.Background()
	o := &Outcome{}
	world.ResetHooks()
	no := false
	cl, err := world.NewCluster(ctx, world.ClusterOpts{N: c.Writers + 1, Type: "keyvalue", Replicate: &no}) // the last replica only reads
	if err != nil {
		return fail("harness: cluster: %v", err)
	}
	defer cl.Close()
	tr := newTracker()
	// per key: writers that touched it, whether a delete was among them
	touched := map[int]map[int]bool{}
	deleted := map[int]bool{}
	for step, op := range c.Ops {
		w := op.W % c.Writers
		s := cl.Stores[w]
		kv := s.(iface.KeyValueStore)
		before := hashSetOf(s)
		switch op.Kind {
		case "put":
			k, v := kvKeys[op.Key], kvValue(op.Val, op.Tag)
			if _, err := kv.Put(ctx, k, v); err != nil {
				return fail("step %d: Put(%q) failed: %v", step, k, err)
			}
			if err := tr.noteWrites(s, w, before, []model.Op{{Kind: "PUT", Key: k, Val: v}}); err != nil {
				return fail("step %d: %v", step, err)
			}
		case "del":
			k := kvKeys[op.Key]
			if _, err := kv.Delete(ctx, k); err != nil {
				return fail("step %d: Delete(%q) failed: %v", step, k, err)
			}
			if err := tr.noteWrites(s, w, before, []model.Op{{Kind: "DEL", Key: k}}); err != nil {
				return fail("step %d: %v", step, err)
			}
			deleted[op.Key] = true
		case "put-merge-inside", "del-merge-inside":
			// a replication of everything replica src holds completes inside the write call of replica w
			src := op.From % c.Writers
			if src == w {
				src = (w + 1) % c.Writers
			}
			k, v := kvKeys[op.Key], kvValue(op.Val, op.Tag)
			mop := model.Op{Kind: "PUT", Key: k, Val: v}
			h, parked, err := writeWithMergeInside(cl, w, src, func() (string, error) {
				if op.Kind == "put-merge-inside" {
					r, err := kv.Put(ctx, k, v)
					if err != nil {
						return "", err
					}
					return r.GetEntry().GetHash().String(), nil
				}
				mop = model.Op{Kind: "DEL", Key: k}
				r, err := kv.Delete(ctx, k)
				if err != nil {
					return "", err
				}
				return r.GetEntry().GetHash().String(), nil
			})
			if err == world.ErrInconclusive {
				o.Inconclusive = true
				return o
			}
			if err != nil {
				return fail("step %d: %s on replica %d with a merge from %d inside: %v", step, op.Kind, w, src, err)
			}
			if err := tr.noteOwnWrite(s, w, before, h, mop); err != nil {
				return fail("step %d: %v", step, err)
			}
			if op.Kind == "del-merge-inside" {
				deleted[op.Key] = true
			}
			if parked {
				o.Labels = append(o.Labels, "merge-inside-write")
			}
		case "rsync", "rreopen":
			// the read-only replica (it never writes): it merges a writer's log, or restarts and rebuilds its view
			reader := c.Writers
			if op.Kind == "rsync" {
				src := op.From % c.Writers
				if cl.Stores[src].OpLog().Len() == 0 {
					continue
				}
				if err := syncFrom(cl, reader, src); err != nil {
					if err == world.ErrInconclusive {
						o.Inconclusive = true
						return o
					}
					return fail("step %d: reader sync <-%d: %v", step, src, err)
				}
			} else {
				if err := cl.ReopenWith(ctx, reader, -1, &orbitdb.CreateDBOptions{Replicate: &no}); err != nil {
					return fail("step %d: the read-only replica cannot restart and load: %v", step, err)
				}
			}
			o.Labels = append(o.Labels, "reader:"+op.Kind)
		case "reopen":
			if err := cl.ReopenWith(ctx, w, -1, &orbitdb.CreateDBOptions{Replicate: &no}); err != nil {
				return fail("step %d: replica %d cannot restart and load: %v", step, w, err)
			}
			o.Labels = append(o.Labels, "reopen")
		case "sync":
			src := op.From % c.Writers
			if src == w {
				continue
			}
			if err := syncFrom(cl, w, src); err != nil {
				if err == world.ErrInconclusive {
					o.Inconclusive = true
					return o
				}
				return fail("step %d: sync %d<-%d: %v", step, w, src, err)
			}
			o.Labels = append(o.Labels, "sync")
		}
		if op.Kind != "sync" && op.Kind != "reopen" && op.Kind != "rsync" && op.Kind != "rreopen" {
			if touched[op.Key] == nil {
				touched[op.Key] = map[int]bool{}
			}
			touched[op.Key][w] = true
		}
		for i, st := range cl.Stores {
			if err := checkKV(tr, st); err != nil {
				return fail("after step %d (%s on replica %d), replica %d: %v", step, op.Kind, w, i, err)
			}
		}
	}
	for k, ws := range touched {
		if len(ws) >= 2 && deleted[k] {
			o.NonTrivial = true
		}
	}
	if c.Writers > 1 {
		o.Labels = append(o.Labels, "multi-writer")
	}
	return o
}

func TestC06(t *testing.T) { runCheck(t, "C06", genC06, execC06) }
