package checks

import (
	"context"
	"fmt"
	"strings"
	"sync"
	"testing"
	"time"

	ipfslog "berty.tech/go-ipfs-log"
	orbitdb "berty.tech/go-orbit-db"
	"berty.tech/go-orbit-db/iface"
	"pgregory.net/rapid"
	"verif/harness/world"
)

// C17 — concurrent writes on one store are each recorded exactly once and recoverable.

type CaseC17 struct {
	Type  string `json:"type"`
	Pre   int    `json:"pre"`   // sequential writes before the concurrent burst
	K     int    `json:"k"`     // concurrent writers
	Prio  []int  `json:"prio"`  // release priority of the goroutines parked after their append (higher first)
	Waves int    `json:"waves"` // how many bursts
	// Post: writers also park after persisting the head, before updating the view and returning; PostPrio is
	// the release priority among those, PostFirst says which class wins when both kinds are parked
	Post      bool  `json:"post,omitempty"`
	PostPrio  []int `json:"post_prio,omitempty"`
	PostFirst bool  `json:"post_first,omitempty"`
	// Burst (with Post): every writer is taken through append+persist first; then all of them, parked before
	// updating the view, are released in the same instant so that their view updates overlap as much as the
	// scheduler lets them (a race the harness provokes but does not order)
	Burst bool `json:"burst,omitempty"`
	// PersistFault > 0: the k-th write of the new head to storage during the first burst fails with an I/O error
	// (that call returns an error and is not counted as acknowledged); the second burst runs without fault
	PersistFault int `json:"persist_fault,omitempty"`
}

func permutations(n int) [][]int {
	if n == 1 {
		return [][]int{{0}}
	}
	var out [][]int
	for _, p := range permutations(n - 1) {
		for i := 0; i <= len(p); i++ {
			q := append(append(append([]int{}, p[:i]...), n-1), p[i:]...)
			out = append(out, q)
		}
	}
	return out
}

func gridC17() []CaseC17 {
	var out []CaseC17
	for k := 2; k <= 4; k++ {
		for _, p := range permutations(k) {
			for _, typ := range []string{"eventlog", "keyvalue"} {
				out = append(out, CaseC17{Type: typ, Pre: k % 2, K: k, Prio: p, Waves: 1})
				if k <= 3 {
					for _, q := range permutations(k) {
						out = append(out, CaseC17{Type: typ, Pre: k % 2, K: k, Prio: p, Waves: 1, Post: true, PostPrio: q, PostFirst: (len(out)/2)%2 == 0})
					}
				}
			}
		}
	}
	return out
}

func genC17(rt *rapid.T) CaseC17 {
	c := CaseC17{
		Type:  rapid.SampledFrom([]string{"eventlog", "keyvalue", "docstore"}).Draw(rt, "type"),
		Pre:   rapid.IntRange(0, 3).Draw(rt, "pre"),
		K:     rapid.IntRange(2, 8).Draw(rt, "k"),
		Waves: rapid.IntRange(1, 2).Draw(rt, "waves"),
	}
	c.Prio = rapid.Permutation(seq(c.K)).Draw(rt, "prio")
	if rapid.IntRange(0, 3).Draw(rt, "persistFault") == 0 {
		c.PersistFault = rapid.IntRange(1, c.K).Draw(rt, "faultAt")
		c.Waves = 2
	} else if rapid.Bool().Draw(rt, "post") {
		c.Post = true
		c.PostPrio = rapid.Permutation(seq(c.K)).Draw(rt, "postprio")
		c.PostFirst = rapid.Bool().Draw(rt, "postfirst")
		if rapid.IntRange(0, 2).Draw(rt, "burst") == 0 {
			c.Burst, c.PostFirst = true, false
			c.Pre = rapid.SampledFrom([]int{0, 3, 40, 120}).Draw(rt, "burstPre")
		}
	}
	return c
}

func seq(n int) []int {
	out := make([]int, n)
	for i := range out {
		out[i] = i
	}
	return out
}

type parkedWriter struct {
	hash    string
	stage   string // appended | persisted
	idx     int    // arrival index within its stage
	release chan struct{}
}

func execC17(c CaseC17) *Outcome {
	ctx := context.Background()
	o := &Outcome{}
	world.ResetHooks()
	no := false
	cl, err := world.NewCluster(ctx, world.ClusterOpts{N: 1, Type: c.Type, Replicate: &no})
	if err != nil {
		return fail("harness: cluster: %v", err)
	}
	defer cl.Close()
	s := cl.Stores[0]
	cnt := 0
	for i := 0; i < c.Pre; i++ {
		if _, err := writeAny(ctx, s, c.Type, i%2, 5, cnt); err != nil {
			return fail("pre-write failed: %v", err)
		}
		cnt++
	}

	var mu sync.Mutex
	var parked []*parkedWriter
	stageCount := map[string]int{}
	prioOf := func(p *parkedWriter) int {
		if c.Burst && p.stage == "appended" {
			return 1000 + c.Prio[p.idx%len(c.Prio)]
		}
		if p.stage == "persisted" {
			v := 2 * c.PostPrio[p.idx%len(c.PostPrio)]
			if c.PostFirst {
				v++
			}
			return v
		}
		v := 2 * c.Prio[p.idx%len(c.Prio)]
		if !c.PostFirst {
			v++
		}
		return v
	}
	postHeld := false
	active := true
	remove := world.AddHook(func(name string, subject interface{}, args []interface{}) {
		if subject != interface{}(s.Replicator()) {
			return
		}
		stage := ""
		switch {
		case name == "store.addop.appended":
			stage = "appended"
		case name == "store.addop.persisted" && c.Post:
			stage = "persisted"
		default:
			return
		}
		mu.Lock()
		if !active {
			mu.Unlock()
			return
		}
		e := args[0].(ipfslog.Entry)
		pw := &parkedWriter{hash: e.GetHash().String(), stage: stage, idx: stageCount[stage], release: make(chan struct{})}
		stageCount[stage]++
		parked = append(parked, pw)
		mu.Unlock()
		<-pw.release
	})
	defer func() {
		mu.Lock()
		active = false
		for _, p := range parked {
			select {
			case <-p.release:
			default:
				close(p.release)
			}
		}
		mu.Unlock()
		remove()
	}()

	type result struct {
		hash string
		err  error
	}
	var acked []string
	failedCalls := 0
	burst := false
	lastPersistedByHook := ""
	nonTrivial := false
	infeasible := false
	contended := false
	for wave := 0; wave < c.Waves; wave++ {
		mu.Lock()
		parked = nil
		mu.Unlock()
		if wave == 0 && c.PersistFault > 0 {
			cl.W.Peers[0].Disk.FailPutsAfter("_localHeads", c.PersistFault-1, 1)
		}
		results := make(chan result, c.K)
		for g := 0; g < c.K; g++ {
			tag := cnt
			cnt++
			go func(g, tag int) {
				before := time.Now()
				_ = before
				op, err := writeReturningHash(ctx, s, c.Type, g%3, 7, tag)
				results <- result{op, err}
			}(g, tag)
		}
		// let every goroutine reach its park point (or block behind a lock a repair may add)
		finished := 0
		var got []result
		releasedIdx := map[int]bool{}
		// serial: observed at the first settle of the wave — only one writer at a time gets as far as
		// the append (a lock serialises them); from then on a writer parked after its append is the
		// only one that can be there and there is no point in waiting for more
		serial, first := false, true
		settle := func() (n int) {
			defer func() {
				if first {
					first = false
					serial = n == 1 && c.K >= 2
				}
			}()
			last, stable := -1, 0
			deadline := time.Now().Add(5 * time.Second)
			for time.Now().Before(deadline) {
				mu.Lock()
				n := len(parked) - len(releasedIdx) // writers currently parked
				atAppend := false
				for i, q := range parked {
					if !releasedIdx[i] && q.stage == "appended" {
						atAppend = true
					}
				}
				mu.Unlock()
				if n+finished+len(results) >= c.K || (serial && atAppend) {
					return n
				}
				if n == last {
					stable++
				} else {
					stable = 0
				}
				last = n
				if stable > 25 {
					return n
				}
				time.Sleep(2 * time.Millisecond)
			}
			return last
		}
		order := 0
		for finished < c.K {
			n := settle()
			// drain results that are already in
			drained := true
			for drained {
				select {
				case r := <-results:
					got = append(got, r)
					finished++
				default:
					drained = false
				}
			}
			if finished >= c.K {
				break
			}
			if c.Burst {
				// all the writers still running sit between persisting and updating the view: let them all go
				mu.Lock()
				var held []*parkedWriter
				allPost := true
				for i, q := range parked {
					if releasedIdx[i] {
						continue
					}
					if q.stage != "persisted" {
						allPost = false
					}
					held = append(held, q)
				}
				if allPost && len(held) == c.K-finished && len(held) >= 2 {
					for i := range parked {
						releasedIdx[i] = true
					}
					mu.Unlock()
					for _, q := range held {
						close(q.release)
					}
					burst = true
					for finished < c.K {
						select {
						case r := <-results:
							got = append(got, r)
							finished++
						case <-time.After(20 * time.Second):
							o.Inconclusive = true
							return o
						}
					}
					break
				}
				mu.Unlock()
			}
			// choose among parked, not yet released writers the one with the highest priority
			mu.Lock()
			best := -1
			for i := range parked {
				if releasedIdx[i] {
					continue
				}
				if best < 0 || prioOf(parked[i]) > prioOf(parked[best]) {
					best = i
				}
			}
			if best >= 0 && parked[best].stage == "appended" {
				for i := range parked {
					if !releasedIdx[i] && parked[i].stage == "persisted" {
						postHeld = true // a writer goes on while another one sits between persisting and returning
					}
				}
			}
			var pw *parkedWriter
			if best >= 0 {
				pw = parked[best]
				releasedIdx[best] = true
			}
			mu.Unlock()
			if n < c.K-finished {
				infeasible = true // some writers are held back by a lock: only part of the order is ours to choose
			}
			if n >= 1 && c.K-finished >= 2 {
				contended = true // a writer sat between append and persist while another write call was in flight
			}
			if pw == nil {
				// nobody parked and not everybody finished: wait for a result
				select {
				case r := <-results:
					got = append(got, r)
					finished++
				case <-time.After(20 * time.Second):
					o.Inconclusive = true
					return o
				}
				continue
			}
			close(pw.release)
			order++
			if pw.stage == "appended" {
				lastPersistedByHook = pw.hash
			}
			if pw.stage == "appended" && c.Post {
				// it parks again after persisting (or returns with an error): wait for either
				again := world.WaitFor(func() bool {
					mu.Lock()
					defer mu.Unlock()
					for _, q := range parked {
						if q.stage == "persisted" && q.hash == pw.hash {
							return true
						}
					}
					return len(results) > 0
				}, 20*time.Second)
				if !again {
					o.Inconclusive = true
					return o
				}
				continue
			}
			// wait until that writer returns before releasing the next one, so that
			// the persist order is exactly the release order (a writer that comes to a park point once more
			// instead of returning - a call that appends again - is picked up by the next round)
			mu.Lock()
			parkedBefore := len(parked)
			mu.Unlock()
			if !world.WaitFor(func() bool {
				mu.Lock()
				defer mu.Unlock()
				return len(results) > 0 || len(parked) > parkedBefore
			}, 20*time.Second) {
				o.Inconclusive = true
				return o
			}
			select {
			case r := <-results:
				got = append(got, r)
				finished++
			default:
			}
		}
		seen := map[string]bool{}
		for _, h := range acked {
			seen[h] = true
		}
		for _, r := range got {
			if r.err != nil && c.PersistFault > 0 && wave == 0 && failedCalls == 0 && strings.Contains(r.err.Error(), "simulated write failure") {
				failedCalls++ // the call whose head write failed reports the error: it is not an acknowledged write
				continue
			}
			if r.err != nil {
				return fail("a concurrent write failed: %v", r.err)
			}
			if seen[r.hash] {
				return fail("two successful write calls returned the same entry %s", short(r.hash))
			}
			seen[r.hash] = true
			acked = append(acked, r.hash)
		}
		heads := world.HeadHashes(s)
		if len(heads) == 1 && lastPersistedByHook != "" && heads[0] != lastPersistedByHook {
			nonTrivial = true
		}
	}
	have := hashSetOf(s)
	for _, h := range acked {
		if !have[h] {
			return fail("acknowledged write %s is not in the store after the writers finished", short(h))
		}
	}
	if len(have) < len(acked)+c.Pre || len(have) > len(acked)+c.Pre+failedCalls {
		return fail("store holds %d entries, %d writes were acknowledged (%d calls reported a storage error)", len(have), len(acked)+c.Pre, failedCalls)
	}
	vals := world.Hashes(s)
	if len(vals) != len(have) {
		return fail("Values() lists %d of %d entries", len(vals), len(have))
	}
	// ... and visible: the view is the replay of the log the store now holds
	sameView := func(st iface.Store, when string) *Outcome {
		got, err := viewOf(st, c.Type)
		if err != nil {
			return fail("%s: reading the view failed: %v", when, err)
		}
		want, err := replayOfLog(st, c.Type)
		if err != nil {
			return fail("harness: %v", err)
		}
		if !eqStrings(got, want) {
			return fail("%s the view shows %v, the replay of the %d entries of the log gives %v (release order of the %d concurrent writers by priority %v, post %v)", when, got, len(have), want, c.K, c.Prio, c.PostPrio)
		}
		return nil
	}
	if out := sameView(s, "after the concurrent writers returned"); out != nil {
		return out
	}

	// restart and load
	mu.Lock()
	active = false
	mu.Unlock()
	p0 := cl.W.Peers[0]
	p0.StopInstance()
	db, err := p0.StartInstance(ctx)
	if err != nil {
		return fail("harness: restart: %v", err)
	}
	s1, err := db.Open(ctx, cl.Addr, &orbitdb.CreateDBOptions{Replicate: &no})
	if err != nil {
		return fail("harness: reopen: %v", err)
	}
	if err := s1.Load(ctx, -1); err != nil {
		return fail("Load after restart failed: %v", err)
	}
	have1 := hashSetOf(s1)
	for _, h := range acked {
		if !have1[h] {
			return fail("acknowledged write %s is missing after restart and Load(-1) (%d of %d entries recovered; release order of the %d concurrent writers by priority %v)", short(h), len(have1), len(have), c.K, c.Prio)
		}
	}
	if n1 := len(world.Hashes(s1)); n1 < len(acked)+c.Pre || n1 > len(have) {
		return fail("after restart Values() lists %d entries, expected %d", n1, len(have))
	}
	if out := sameView(s1, "after restart and Load(-1)"); out != nil {
		return out
	}
	o.NonTrivial = contended
	if nonTrivial {
		o.Labels = append(o.Labels, "last-persister-is-not-head-author")
	}
	if infeasible {
		o.Labels = append(o.Labels, "schedule-partly-infeasible(lock)")
	}
	if burst {
		o.Labels = append(o.Labels, "view-updates-released-together")
	}
	if failedCalls > 0 {
		o.Labels = append(o.Labels, "head-write-failed-once")
	}
	if postHeld {
		o.Labels = append(o.Labels, "writer-held-after-persist-while-another-wrote")
	}
	o.Labels = append(o.Labels, fmt.Sprintf("k=%d", c.K))
	return o
}

// writeReturningHash issues one write and returns the hash of the entry the call returned.
func writeReturningHash(ctx context.Context, s iface.Store, typ string, key, size, tag int) (string, error) {
	val := []byte(fmt.Sprintf("v-%d-%d", tag, size))
	k := fmt.Sprintf("k%d", key)
	switch typ {
	case "eventlog":
		op, err := s.(iface.EventLogStore).Add(ctx, val)
		if err != nil {
			return "", err
		}
		return op.GetEntry().GetHash().String(), nil
	case "keyvalue":
		op, err := s.(iface.KeyValueStore).Put(ctx, k, val)
		if err != nil {
			return "", err
		}
		return op.GetEntry().GetHash().String(), nil
	default:
		op, err := s.(iface.DocumentStore).Put(ctx, map[string]interface{}{"_id": k, "v": tag})
		if err != nil {
			return "", err
		}
		return op.GetEntry().GetHash().String(), nil
	}
}

func TestC17(t *testing.T)     { runCheck(t, "C17", genC17, execC17) }
func TestC17Grid(t *testing.T) { runEnum(t, "C17", gridC17(), execC17) }
