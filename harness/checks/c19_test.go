package checks

import (
	"context"
	"fmt"
	"sync"
	"sync/atomic"
	"testing"
	"time"

	orbitdb "berty.tech/go-orbit-db"
	"berty.tech/go-orbit-db/iface"
	"berty.tech/go-orbit-db/stores/basestore"
	"pgregory.net/rapid"
	"verif/harness/model"
	"verif/harness/world"
)

// C19 — replication progress never regresses and equals its maximum at rest.

type StepC19 struct {
	Kind  string `json:"kind"` // local | remote | rmerge | merge | reopen | snapshot
	W     int    `json:"w,omitempty"`
	From  int    `json:"from,omitempty"`
	N     int    `json:"n,omitempty"`
	Gated bool   `json:"gated,omitempty"`
	Order []int  `json:"order,omitempty"` // release order of parked fetches
}

type CaseC19 struct {
	Type   string    `json:"type"`
	Others int       `json:"others"`
	Steps  []StepC19 `json:"steps"`
}

func genC19(rt *rapid.T) CaseC19 {
	c := CaseC19{
		Type:   rapid.SampledFrom([]string{"eventlog", "keyvalue"}).Draw(rt, "type"),
		Others: rapid.IntRange(1, 2).Draw(rt, "others"),
	}
	n := rapid.IntRange(2, 10).Draw(rt, "nsteps")
	for i := 0; i < n; i++ {
		st := StepC19{Kind: rapid.SampledFrom([]string{"local", "local", "remote", "remote", "remote", "rmerge", "rmerge", "merge", "merge", "merge", "reopen", "reopen", "snapshot", "snapshot", "failwrite", "reload", "snapload", "abortload"}).Draw(rt, "kind")}
		switch st.Kind {
		case "reload":
			st.N = rapid.SampledFrom([]int{-1, 0, 1, 2, 3, 50}).Draw(rt, "limit")
		case "local":
			st.N = rapid.IntRange(1, 6).Draw(rt, "n")
		case "remote":
			st.W = rapid.IntRange(1, c.Others).Draw(rt, "w")
			st.N = rapid.OneOf(rapid.IntRange(1, 6), rapid.IntRange(10, 25)).Draw(rt, "n")
		case "rmerge": // a remote writer merges another writer (incl. peer 0) => its clock jumps
			st.W = rapid.IntRange(1, c.Others).Draw(rt, "w")
			st.From = rapid.IntRange(0, c.Others).Draw(rt, "from")
		case "merge":
			st.W = rapid.IntRange(1, c.Others).Draw(rt, "w")
			st.Gated = rapid.Bool().Draw(rt, "gated")
			if st.Gated {
				st.Order = rapid.SliceOfN(rapid.IntRange(0, 50), 0, 12).Draw(rt, "order")
			}
		}
		c.Steps = append(c.Steps, st)
	}
	if rapid.IntRange(0, 3).Draw(rt, "tail") == 0 {
		// a forked log (concurrent local and remote runs, merged), reopened from its cached heads - it then rests
		// below its entry count, at the largest clock - and one more load, snapshot or merge on top of that state
		w := rapid.IntRange(1, c.Others).Draw(rt, "tw")
		c.Steps = append(c.Steps,
			StepC19{Kind: "local", N: rapid.IntRange(1, 4).Draw(rt, "tl")},
			StepC19{Kind: "remote", W: w, N: rapid.IntRange(1, 4).Draw(rt, "tr")},
			StepC19{Kind: "merge", W: w},
			StepC19{Kind: "reopen"},
			StepC19{Kind: rapid.SampledFrom([]string{"snapload", "snapload", "reload", "snapshot", "merge"}).Draw(rt, "tk"), W: w, N: -1})
	}
	return c
}

type statusSampler struct {
	mu       sync.Mutex
	store    iface.Store
	lastP    int
	lastM    int
	samples  int64
	violated string
}

func (ss *statusSampler) sample(where string) {
	ss.mu.Lock()
	defer ss.mu.Unlock()
	if ss.store == nil || ss.violated != "" {
		return
	}
	p := ss.store.ReplicationStatus().GetProgress()
	m := ss.store.ReplicationStatus().GetMax()
	ss.samples++
	if p < ss.lastP {
		ss.violated = fmt.Sprintf("progress went from %d down to %d (max %d) at %s", ss.lastP, p, m, where)
		return
	}
	if m < ss.lastM {
		ss.violated = fmt.Sprintf("max went from %d down to %d (progress %d) at %s", ss.lastM, m, p, where)
		return
	}
	ss.lastP, ss.lastM = p, m
}

func (ss *statusSampler) reset(s iface.Store) {
	ss.mu.Lock()
	ss.store = s
	ss.lastP, ss.lastM = 0, 0
	ss.mu.Unlock()
}

func (ss *statusSampler) err() string {
	ss.mu.Lock()
	defer ss.mu.Unlock()
	return ss.violated
}

func execC19(c CaseC19) *Outcome {
	ctx := context.Background()
	o := &Outcome{}
	world.ResetHooks()
	no := false
	cl, err := world.NewCluster(ctx, world.ClusterOpts{N: 1 + c.Others, Type: c.Type, Replicate: &no})
	if err != nil {
		return fail("harness: cluster: %v", err)
	}
	defer cl.Close()
	p0 := cl.W.Peers[0]
	tr := newTracker()
	ss := &statusSampler{}
	ss.reset(cl.Stores[0])

	// sample at every instrumented point of store 0 and continuously in between
	var stop int32
	remove := world.AddHook(func(name string, subject interface{}, args []interface{}) {
		ss.mu.Lock()
		s := ss.store
		ss.mu.Unlock()
		if s != nil && subject == interface{}(s.Replicator()) {
			ss.sample("hook " + name)
		}
	})
	defer remove()
	done := make(chan struct{})
	go func() {
		defer close(done)
		for atomic.LoadInt32(&stop) == 0 {
			ss.sample("poll")
			time.Sleep(20 * time.Microsecond)
		}
	}()
	defer func() {
		atomic.StoreInt32(&stop, 1)
		<-done
	}()

	cnt := 0
	write := func(w, n int) error {
		s := cl.Stores[w]
		for i := 0; i < n; i++ {
			before := hashSetOf(s)
			op, err := writeAny(ctx, s, c.Type, cnt%3, 4, cnt)
			cnt++
			if err != nil {
				return err
			}
			if err := tr.noteWrites(s, w, before, []model.Op{op}); err != nil {
				return err
			}
			if w == 0 {
				ss.sample("after local write")
			}
		}
		return nil
	}
	trimmed := false // a Load with a limit has cut the log held in memory: it is no longer the complete log
	atRest := func(where string) *Outcome {
		s := cl.Stores[0]
		if !cl.W.WaitQuiescent([]iface.Store{s}, nil, 20*time.Second) {
			return &Outcome{Inconclusive: true}
		}
		ss.sample("rest " + where)
		if v := ss.err(); v != "" {
			return fail("%s", v)
		}
		p, m := s.ReplicationStatus().GetProgress(), s.ReplicationStatus().GetMax()
		n := s.OpLog().Len()
		maxClock := 0
		singleWriter := true
		for _, e := range s.OpLog().GetEntries().Slice() {
			if t := e.GetClock().GetTime(); t > maxClock {
				maxClock = t
			}
			if tr.author[e.GetHash().String()] != 0 {
				singleWriter = false
			}
		}
		if n == 0 || trimmed {
			return nil
		}
		if p != m {
			return fail("at rest %s: progress %d != max %d (log of %d entries, largest clock %d)", where, p, m, n, maxClock)
		}
		if m < maxClock || m > n {
			return fail("at rest %s: progress = max = %d is outside [largest clock %d, entries %d]", where, m, maxClock, n)
		}
		if singleWriter && m != n {
			return fail("at rest %s: single-writer log of %d entries but progress = max = %d", where, n, m)
		}
		return nil
	}
	multiIntoNonEmpty := false
	for i, st := range c.Steps {
		switch st.Kind {
		case "local":
			if err := write(0, st.N); err != nil {
				return fail("step %d: %v", i, err)
			}
		case "reload":
			// Load on the open store, possibly with a limit that trims the log held in memory: progress and
			// maximum must not go down (the bounds against the log are only asserted for an untrimmed log)
			s0 := cl.Stores[0]
			before := s0.OpLog().Len()
			if err := s0.Load(ctx, st.N); err != nil {
				return fail("step %d: Load(%d) on the open store failed: %v", i, st.N, err)
			}
			if s0.OpLog().Len() < before {
				trimmed = true
			}
			ss.sample("after Load on the open store")
			o.Labels = append(o.Labels, "load-on-open-store")
		case "failwrite":
			// a local write whose head cannot be written to storage (I/O error): the call reports the error, the
			// entry is in the log all the same, and the status must describe that log once at rest; the next
			// write succeeds (and covers the entry)
			s0 := cl.Stores[0]
			before := hashSetOf(s0)
			cl.W.Peers[0].Disk.FailPuts("_localHeads", 1)
			op, err := writeAny(ctx, s0, c.Type, cnt%3, 4, cnt)
			cnt++
			if err == nil {
				return fail("step %d: harness: the injected storage fault did not make the write fail", i)
			}
			if s0.OpLog().Len() > len(before) {
				if err := tr.noteWrites(s0, 0, before, []model.Op{op}); err != nil {
					return fail("harness: %v", err)
				}
			}
			ss.sample("after failed local write")
			if out := atRest(fmt.Sprintf("after step %d (a local write whose head write failed)", i)); out != nil {
				return out
			}
			if err := write(0, 1); err != nil {
				return fail("step %d: the write after a failed one failed too: %v", i, err)
			}
			o.Labels = append(o.Labels, "head-write-failed")
		case "remote":
			if err := write(1+(st.W-1)%c.Others, st.N); err != nil {
				return fail("step %d: %v", i, err)
			}
		case "rmerge":
			dst := 1 + (st.W-1)%c.Others
			src := st.From % (1 + c.Others)
			if src == dst || cl.Stores[src].OpLog().Len() == 0 {
				continue
			}
			if err := syncFrom(cl, dst, src); err != nil {
				if err == world.ErrInconclusive {
					o.Inconclusive = true
					return o
				}
				return fail("step %d: rmerge: %v", i, err)
			}
		case "merge":
			src := 1 + (st.W-1)%c.Others
			s0 := cl.Stores[0]
			have := hashSetOf(s0)
			fresh := 0
			writers := map[int]bool{}
			for _, h := range world.HashSet(cl.Stores[src]) {
				if !have[h] {
					fresh++
					writers[tr.author[h]] = true
				}
			}
			if fresh == 0 {
				continue
			}
			if trimmed {
				// the log held in memory was cut by a bounded Load: entries below the cut are not fetched again
				// (a join stops at entries the log holds), so the merge is not asked to be complete - the status
				// series is still watched while it runs
				heads, err := cloneHeads(world.Heads(cl.Stores[src]))
				if err != nil {
					return fail("harness: %v", err)
				}
				if err := s0.Sync(ctx, heads); err != nil {
					return fail("step %d: Sync: %v", i, err)
				}
				if !cl.W.WaitQuiescent([]iface.Store{s0}, nil, 20*time.Second) {
					o.Inconclusive = true
					return o
				}
				ss.sample("after a merge into a cut log")
				o.Labels = append(o.Labels, "merge-into-a-cut-log")
				break
			}
			if len(have) > 0 && (len(writers) > 1 || !writers[0]) {
				multiIntoNonEmpty = true
			}
			if !st.Gated {
				if err := syncFrom(cl, 0, src); err != nil {
					if err == world.ErrInconclusive {
						o.Inconclusive = true
						return o
					}
					return fail("step %d: merge: %v", i, err)
				}
			} else {
				heads, err := cloneHeads(world.Heads(cl.Stores[src]))
				if err != nil {
					return fail("harness: %v", err)
				}
				want := world.HashSet(cl.Stores[src])
				p0.SetGate(true)
				if err := s0.Sync(ctx, heads); err != nil {
					p0.SetGate(false)
					return fail("step %d: Sync: %v", i, err)
				}
				k := 0
				complete := func() bool {
					h := hashSetOf(s0)
					for _, x := range want {
						if !h[x] {
							return false
						}
					}
					return true
				}
				deadline := time.Now().Add(claimTimeout)
				for !complete() {
					if time.Now().After(deadline) {
						p0.SetGate(false)
						o.Inconclusive = true
						return o
					}
					if len(p0.Parked()) == 0 {
						time.Sleep(200 * time.Microsecond)
						continue
					}
					idx := 0
					if k < len(st.Order) {
						idx = st.Order[k]
					}
					k++
					p0.ReleaseParked(idx)
					ss.sample("after releasing a fetch")
				}
				p0.SetGate(false)
				o.Labels = append(o.Labels, "gated-merge")
			}
		case "reopen":
			ss.reset(nil)
			if err := cl.Reopen(ctx, 0); err != nil {
				return fail("step %d: reopen: %v", i, err)
			}
			// Reopen opens with replication on; that is fine here (nobody else publishes)
			ss.reset(cl.Stores[0])
			trimmed = false // a fresh instance has read the whole log back from its cached heads
			o.Labels = append(o.Labels, "reopen")
		case "abortload":
			// a Load of the open store is held at its first block read, a local write is acknowledged meanwhile,
			// then the Load's context is cancelled: whatever the aborted Load does to the status, nothing the
			// write raised may go down again
			s0 := cl.Stores[0]
			if s0.OpLog().Len() == 0 || trimmed {
				continue
			}
			p0.SetGate(true)
			lctx, lcancel := context.WithCancel(ctx)
			ldone := make(chan error, 1)
			go func() { ldone <- s0.Load(lctx, -1) }()
			held := world.WaitFor(func() bool { return len(p0.Parked()) > 0 }, time.Second)
			before := hashSetOf(s0)
			op, werr := writeAny(ctx, s0, c.Type, 1, 2, cnt)
			cnt++
			if werr == nil {
				werr = tr.noteWrites(s0, 0, before, []model.Op{op})
			}
			ss.sample("after a write made while a Load was in flight")
			lcancel()
			p0.SetGate(false)
			select {
			case <-ldone:
			case <-time.After(20 * time.Second):
				o.Inconclusive = true
				return o
			}
			if werr != nil {
				return fail("step %d: a local write made while a Load was in flight failed: %v", i, werr)
			}
			ss.sample("after the aborted Load returned")
			if held {
				o.Labels = append(o.Labels, "load-aborted-after-a-write-made-in-flight")
			}
		case "snapload":
			// the open store saves a snapshot and loads it back into itself (whatever its status was: after a
			// reopen of a forked log it rests below the entry count, which the property allows)
			s0 := cl.Stores[0]
			if s0.OpLog().Len() == 0 || trimmed {
				continue
			}
			if !cl.W.WaitQuiescent([]iface.Store{s0}, nil, 20*time.Second) {
				o.Inconclusive = true
				return o
			}
			if _, err := basestore.SaveSnapshot(ctx, s0); err != nil {
				return fail("step %d: SaveSnapshot: %v", i, err)
			}
			if err := s0.LoadFromSnapshot(ctx); err != nil {
				return fail("step %d: LoadFromSnapshot into the open store: %v", i, err)
			}
			ss.sample("after LoadFromSnapshot into the open store")
			o.Labels = append(o.Labels, "snapshot-into-open-store")
		case "snapshot":
			s0 := cl.Stores[0]
			if s0.OpLog().Len() == 0 {
				continue
			}
			if !cl.W.WaitQuiescent([]iface.Store{s0}, nil, 20*time.Second) {
				o.Inconclusive = true
				return o
			}
			if _, err := basestore.SaveSnapshot(ctx, s0); err != nil {
				return fail("step %d: SaveSnapshot: %v", i, err)
			}
			ss.reset(nil)
			p0.StopInstance()
			db, err := p0.StartInstance(ctx)
			if err != nil {
				return fail("harness: restart: %v", err)
			}
			s1, err := db.Open(ctx, cl.Addr, &orbitdb.CreateDBOptions{Replicate: &no})
			if err != nil {
				return fail("harness: reopen: %v", err)
			}
			cl.Stores[0] = s1
			ss.reset(s1)
			if err := s1.LoadFromSnapshot(ctx); err != nil {
				return fail("step %d: LoadFromSnapshot: %v", i, err)
			}
			o.Labels = append(o.Labels, "snapshot")
		}
		if out := atRest(fmt.Sprintf("after step %d (%s)", i, st.Kind)); out != nil {
			return out
		}
	}
	o.NonTrivial = multiIntoNonEmpty
	if multiIntoNonEmpty {
		o.Labels = append(o.Labels, "multi-writer-into-non-empty")
	}
	o.Labels = append(o.Labels, fmt.Sprintf("samples>=%d", ss.samples/1000*1000))
	return o
}

func TestC19(t *testing.T) { runCheck(t, "C19", genC19, execC19) }
