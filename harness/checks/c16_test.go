package checks

import (
	"context"
	"fmt"
	"sync"
	"testing"
	"time"

	"berty.tech/go-orbit-db/events"
	"pgregory.net/rapid"
	"verif/harness/world"
)

// C16 (a) — the legacy channel emitter: ordered, lossless, once each, however slowly the subscriber reads.

type StepC16 struct {
	Kind string `json:"kind"` // emit | read | hold | release | fill (emit until exactly 17+n events are unread: channel full, one in the drainer's hand, n queued)
	N    int    `json:"n,omitempty"`
}

type CaseC16 struct {
	Steps []StepC16 `json:"steps"`
}

func genC16(rt *rapid.T) CaseC16 {
	var c CaseC16
	n := rapid.IntRange(2, 14).Draw(rt, "nsteps")
	for i := 0; i < n; i++ {
		st := StepC16{Kind: rapid.SampledFrom([]string{"emit", "emit", "emit", "read", "read", "hold", "release"}).Draw(rt, "kind")}
		switch st.Kind {
		case "emit":
			st.N = rapid.OneOf(rapid.IntRange(1, 4), rapid.IntRange(1, 4), rapid.IntRange(14, 40)).Draw(rt, "n")
		case "read":
			st.N = rapid.OneOf(rapid.IntRange(1, 3), rapid.IntRange(1, 3), rapid.IntRange(10, 30)).Draw(rt, "n")
		}
		c.Steps = append(c.Steps, st)
	}
	if rapid.IntRange(0, 3).Draw(rt, "shortBacklog") == 0 {
		// the drainer is parked with an event taken from a short backlog while the reader makes room, then more is emitted
		c.Steps = append(c.Steps,
			StepC16{Kind: "fill", N: rapid.IntRange(1, 3).Draw(rt, "backlog")},
			StepC16{Kind: "hold"},
			StepC16{Kind: "read", N: rapid.IntRange(1, 5).Draw(rt, "room")},
			StepC16{Kind: "emit", N: rapid.IntRange(1, 3).Draw(rt, "late")},
			StepC16{Kind: "release"})
	}
	return c
}

func execC16(c CaseC16) *Outcome {
	o := &Outcome{}
	world.ResetHooks()
	ctx, cancel := context.WithCancel(context.Background())
	defer cancel()
	em := &events.EventEmitter{}
	ch := em.Subscribe(ctx)

	var mu sync.Mutex
	armed := false
	var gate chan struct{}
	heldCount := 0
	remove := world.AddHook(func(name string, subject interface{}, args []interface{}) {
		if name != "events.drain.dequeued" || subject != interface{}(ch) {
			return
		}
		mu.Lock()
		if !armed {
			mu.Unlock()
			return
		}
		armed = false
		g := make(chan struct{})
		gate = g
		heldCount++
		mu.Unlock()
		<-g
	})
	release := func() {
		mu.Lock()
		armed = false
		if gate != nil {
			close(gate)
			gate = nil
		}
		mu.Unlock()
	}
	defer func() {
		release()
		remove()
	}()

	emitted := 0
	foreign := ""
	var got []int
	overflowed := false
	readOne := func(timeout time.Duration) bool {
		select {
		case e, ok := <-ch:
			if !ok {
				return false
			}
			v, isInt := e.(int)
			if !isInt {
				// not one of the emitted values (e.g. nil): recorded as a value no emitted event has
				foreign = fmt.Sprintf("%#v", e)
				v = -1
			}
			got = append(got, v)
			return true
		case <-time.After(timeout):
			return false
		}
	}
	for _, st := range c.Steps {
		switch st.Kind {
		case "emit":
			for i := 0; i < st.N; i++ {
				em.Emit(ctx, emitted)
				emitted++
			}
			if emitted-len(got) > 17 {
				overflowed = true
			}
			// let the emitter's goroutines move what they can
			time.Sleep(300 * time.Microsecond)
		case "fill":
			for emitted-len(got) < 17+st.N {
				em.Emit(ctx, emitted)
				emitted++
			}
			if emitted-len(got) > 17 {
				overflowed = true
			}
			time.Sleep(300 * time.Microsecond)
		case "read":
			for i := 0; i < st.N; i++ {
				if !readOne(3 * time.Millisecond) {
					break
				}
			}
			time.Sleep(200 * time.Microsecond)
		case "hold":
			mu.Lock()
			if gate == nil {
				armed = true
			}
			mu.Unlock()
		case "release":
			release()
			time.Sleep(300 * time.Microsecond)
		}
	}
	release()
	for len(got) < emitted {
		if !readOne(20 * time.Second) {
			return fail("emitted %d events, the subscriber received only %d after everything was released (received tail %v)", emitted, len(got), tail(got, 8))
		}
	}
	// nothing extra
	if readOne(2 * time.Millisecond) {
		return fail("subscriber received more events (%d) than were emitted (%d)", len(got), emitted)
	}
	if foreign != "" {
		return fail("the subscriber received %s, which was never emitted (%d emitted, drainer held %d times)", foreign, emitted, heldCount)
	}
	for i, v := range got {
		if v != i {
			return fail("subscriber received event %d at position %d: order or multiplicity broken (around %v; %d emitted, drainer held %d times)", v, i, window(got, i, 4), emitted, heldCount)
		}
	}
	o.NonTrivial = overflowed && heldCount > 0
	if overflowed {
		o.Labels = append(o.Labels, "overflow-queue-used")
	}
	if heldCount > 0 {
		o.Labels = append(o.Labels, "drainer-held")
	}
	o.Labels = append(o.Labels, fmt.Sprintf("events<=%d", (emitted/20+1)*20))
	return o
}

func tail(a []int, n int) []int {
	if len(a) > n {
		return a[len(a)-n:]
	}
	return a
}

func window(a []int, i, r int) []int {
	lo, hi := i-r, i+r+1
	if lo < 0 {
		lo = 0
	}
	if hi > len(a) {
		hi = len(a)
	}
	return a[lo:hi]
}

func TestC16Emitter(t *testing.T) { runCheck(t, "C16", genC16, execC16) }
