package checks

import (
	"context"
	"encoding/json"
	"fmt"
	"strings"
	"testing"

	"berty.tech/go-ipfs-log/entry"
	"berty.tech/go-ipfs-log/identityprovider"
	cid "github.com/ipfs/go-cid"
	"pgregory.net/rapid"
	"verif/harness/model"
	"verif/harness/world"
)

// C04 — tampered, mis-addressed or foreign-database entries are never merged.

var c04Fields = []string{"payload", "clock.time", "clock.id", "next.add", "next.drop", "refs.add", "key.other", "key.garbage", "sig.flip", "sig.empty",
	"identity.id", "identity.id.nonwriter", "identity.publicKey", "identity.sig.id", "identity.sig.publicKey", "identity.type", "logid", "logid.slash", "logid.noprefix", "logid.dot", "logid.case", "v", "hash", "hash.raw", "sibling"}

type CaseC04 struct {
	Type    string     `json:"type"`
	Authors int        `json:"authors"`
	Hist    []HistStep `json:"hist"`
	PreSync bool       `json:"presync"`
	Base    int        `json:"base"` // index into the honest entries (mod len); -1: a fresh entry nobody has seen
	Field   string     `json:"field"`
	Form    string     `json:"form"`              // A: head, claimed hash kept | B: head, hash recomputed | C: next of a valid colluding head | D: refs of a valid colluding head | E: next of a head that passes the pre-check but is refused at join
	Route   string     `json:"route"`             // sync | topic | direct | loadmore | snapqueue
	Restart bool       `json:"restart,omitempty"` // afterwards the replica restarts and loads its log
	// Second (form D): the colluding head's refs name a second bad block of another class as well - "raw": the
	// bytes of an honest entry under the raw-codec address, "sibling": an entry written for another database -
	// so that the code meets two different reasons to refuse in one log
	Second string `json:"second,omitempty"`
}

func genC04(rt *rapid.T) CaseC04 {
	c := CaseC04{
		Type:    rapid.SampledFrom([]string{"eventlog", "keyvalue", "docstore"}).Draw(rt, "type"),
		Authors: rapid.IntRange(1, 2).Draw(rt, "authors"),
		PreSync: rapid.Bool().Draw(rt, "presync"),
		Base:    rapid.IntRange(-1, 12).Draw(rt, "base"),
		Field:   rapid.SampledFrom(c04Fields).Draw(rt, "field"),
		Form:    rapid.SampledFrom([]string{"A", "B", "C", "D", "E"}).Draw(rt, "form"),
		Route:   rapid.SampledFrom([]string{"sync", "sync", "topic", "topic", "direct", "direct", "loadmore", "snapqueue"}).Draw(rt, "route"),
		Restart: rapid.Bool().Draw(rt, "restart"),
	}
	c.Hist = genHist(rt, c.Authors, 6)
	if c.Form == "D" {
		c.Second = rapid.SampledFrom([]string{"", "raw", "sibling"}).Draw(rt, "second")
	}
	return c
}

func cloneEntry(e *entry.Entry) *entry.Entry {
	b, _ := json.Marshal(e)
	out := &entry.Entry{}
	_ = json.Unmarshal(b, out)
	if out.Next == nil {
		out.Next = []cid.Cid{}
	}
	if out.Refs == nil {
		out.Refs = []cid.Cid{}
	}
	return out
}

func execC04(c CaseC04) *Outcome {
	ctx := context.Background()
	o := &Outcome{}
	world.ResetHooks()
	env, err := newHostileEnv(ctx, hostileOpts{Type: c.Type, Authors: c.Authors, VictimWrites: true})
	if err != nil {
		return fail("harness: %v", err)
	}
	defer env.cl.Close()
	cl := env.cl
	if _, out := buildHistory(ctx, cl, env.tr, c.Type, c.Authors, c.Hist, &env.cnt); out != nil {
		return out
	}
	if _, err := env.honestWrite(ctx, 0, 0); err != nil { // at least one honest entry
		return fail("harness: %v", err)
	}
	if c.PreSync {
		for a := 0; a < c.Authors; a++ {
			if cl.Stores[a].OpLog().Len() == 0 {
				continue
			}
			if err := syncFrom(cl, env.V, a); err != nil {
				if err == world.ErrInconclusive {
					o.Inconclusive = true
					return o
				}
				return fail("presync: %v", err)
			}
		}
	}
	held := hashSetOf(env.victim())

	// the base entry
	var base *entry.Entry
	attackerID := cl.W.Peers[env.X].DB.Identity()
	if c.Field == "sibling" {
		payload, _ := opPayload(c.Type, hostileMarker+"-key", []byte(hostileMarker+"-sibling"))
		// written for another log id, properly signed by an authorised writer
		heads := world.Heads(cl.Stores[0])
		var next []cid.Cid
		t := 0
		for _, h := range heads {
			next = append(next, h.GetHash())
			if h.GetClock().GetTime() > t {
				t = h.GetClock().GetTime()
			}
		}
		if c.Base%2 == 0 {
			next = []cid.Cid{}
		}
		e, err := env.craft(ctx, env.C, cl.Addr+"-sibling", payload, next, t+1)
		if err != nil {
			return fail("harness: craft: %v", err)
		}
		base = e
	} else if c.Base < 0 || (strings.HasPrefix(c.Field, "identity.") && (c.Form != "A" || c.Route == "loadmore" || c.Route == "snapqueue")) {
		// (identity mutations with a recomputed hash still verify - the signature does not cover the
		// identity block - so they are built on an entry nobody else holds: a second entry with the
		// same (time, writer) pair would break the uniqueness assumption of the order model)
		payload, _ := opPayload(c.Type, "k1", []byte("fresh-valid"))
		heads := world.Heads(cl.Stores[0])
		var next []cid.Cid
		t := 0
		for _, h := range heads {
			next = append(next, h.GetHash())
			if h.GetClock().GetTime() > t {
				t = h.GetClock().GetTime()
			}
		}
		_ = t
		e, err := env.craftValid(ctx, payload, next)
		if err != nil {
			return fail("harness: craft: %v", err)
		}
		base = e // never delivered itself: only its mutation is
	} else {
		base = env.entryObj(env.tr.seq[c.Base%len(env.tr.seq)])
	}
	if base == nil {
		return fail("harness: no base entry")
	}
	// a link that exists (the database manifest) but is not an entry: unfetchable links are outside
	// the property's domain (they stall any replicator, honest or not, until the block shows up)
	bogus := cl.Stores[0].Address().GetRoot()
	m := cloneEntry(base)
	hostilePayload, hostileOp := opPayload(c.Type, hostileMarker+"-key", []byte(hostileMarker+"-value"))
	switch c.Field {
	case "payload":
		m.Payload = hostilePayload
	case "clock.time":
		m.Clock.Time += 3
	case "clock.id":
		m.Clock.ID = append([]byte{}, attackerID.PublicKey...)
	case "next.add":
		m.Next = append(m.Next, bogus)
	case "next.drop":
		if len(m.Next) > 0 {
			m.Next = m.Next[1:]
		} else {
			m.Next = []cid.Cid{bogus}
		}
	case "refs.add":
		m.Refs = append(m.Refs, bogus)
	case "key.other":
		m.Key = append([]byte{}, attackerID.PublicKey...)
	case "key.garbage":
		m.Key = []byte{1, 2, 3, 4, 5}
	case "sig.flip":
		m.Sig = append([]byte{}, m.Sig...)
		m.Sig[len(m.Sig)/2] ^= 0x40
	case "sig.empty":
		m.Sig = nil
	case "identity.id":
		m.Identity = copyIdentity(m.Identity)
		m.Identity.ID = world.IdentityID(cl.W.Peers[env.V].Slot) // another authorised id
	case "identity.id.nonwriter":
		// the id of an identity without write access, everything else (public key, signatures) the author's own:
		// whatever the store has learnt about the author's key must not vouch for this id
		m.Identity = copyIdentity(m.Identity)
		m.Identity.ID = attackerID.ID
	case "identity.publicKey":
		m.Identity = copyIdentity(m.Identity)
		m.Identity.PublicKey = append([]byte{}, attackerID.PublicKey...)
	case "identity.sig.id":
		m.Identity = copyIdentity(m.Identity)
		m.Identity.Signatures.ID = append([]byte{9}, m.Identity.Signatures.ID...)
	case "identity.sig.publicKey":
		m.Identity = copyIdentity(m.Identity)
		m.Identity.Signatures.PublicKey = append([]byte{9}, m.Identity.Signatures.PublicKey...)
	case "identity.type":
		m.Identity = copyIdentity(m.Identity)
		m.Identity.Type = "orbitdb2"
	case "logid":
		m.LogID = cl.Addr + "x"
	case "logid.slash": // other spellings of this database's own address are still not its log id
		m.LogID = cl.Addr + "/"
	case "logid.noprefix":
		m.LogID = strings.TrimPrefix(cl.Addr, "/orbitdb/")
	case "logid.dot":
		m.LogID = strings.Replace(cl.Addr, "/orbitdb/", "/orbitdb/./", 1)
	case "logid.case":
		m.LogID = strings.ToUpper(cl.Addr)
	case "v":
		m.V = 1
	case "hash", "hash.raw", "sibling":
		// content unchanged; "hash": the claimed address is someone else's; "hash.raw": the claimed address has the
		// digest of the content but another codec (raw instead of dag-cbor): a different address all the same
	}
	form := c.Form
	if (c.Route == "loadmore" || c.Route == "snapqueue") && form == "A" && c.Field != "hash" && c.Field != "hash.raw" {
		// these routes carry addresses only: an entry under a claimed address it does not hash to cannot travel
		// by them (the address is fetched, which yields the untouched original)
		form = "B"
	}
	claimed := base.Hash
	switch {
	case c.Field == "hash":
		form = "A"
		claimed = bogus
	case c.Field == "hash.raw":
		// as a head (A) or, by that address, as the ancestor / reference of a valid head (C, D, E)
		if form == "B" {
			form = "A"
		}
		claimed = cid.NewCidV1(cid.Raw, base.Hash.Hash())
	case form == "A":
		// claimed hash kept
	default:
		// hash recomputed over the mutated content, block stored on the attacker's node
		if err := env.rehash(ctx, env.X, m); err != nil {
			return fail("harness: rehash: %v", err)
		}
		claimed = m.Hash
	}
	m.Hash = claimed
	real, err := env.contentHash(ctx, m)
	if err != nil {
		return fail("harness: content hash: %v", err)
	}
	hashBad := !claimed.Equals(real)
	sigBad := !env.sigOK(m)
	logBad := m.LogID != cl.Addr
	idBad := c.Field == "identity.id.nonwriter" // the identity block names an id that has no write access
	bad := hashBad || sigBad || logBad || idBad
	desc := fmt.Sprintf("field %s mutated, form %s (hash mismatch %v, bad signature %v, wrong log id %v, id without write access %v)", c.Field, form, hashBad, sigBad, logBad, idBad)
	if bad {
		// an address is hostile only if no honest entry lives there; content smuggled in under an
		// honest address is caught by victimClean's content comparison
		if env.tr.ents[claimed.String()].Hash == "" {
			env.hostile[claimed.String()] = desc + " [claimed address]"
		}
		if env.tr.ents[real.String()].Hash == "" {
			env.hostile[real.String()] = desc + " [content address]"
		}
	} else {
		// still a valid entry by C04's definition (e.g. identity block not covered by the signature):
		// whether it may enter is C03's question; the models must know it in case it is merged
		op := model.Op{}
		if c.Field == "payload" {
			op = hostileOp
		} else if bo, ok := env.tr.ops[base.Hash.String()]; ok {
			op = bo
		} else {
			_, op = opPayload(c.Type, "k1", []byte("fresh-valid"))
		}
		if env.tr.ents[m.Hash.String()].Hash == "" {
			env.registerCrafted(m, -1, op)
		}
		o.Labels = append(o.Labels, "mutation-still-valid:"+c.Field)
	}

	// deliver
	fetchedBefore := len(cl.W.Peers[env.V].GetLog)
	switch form {
	case "A", "B":
		if err := env.deliver(ctx, c.Route, []*entry.Entry{m}); err != nil {
			return fail("harness: deliver: %v", err)
		}
	case "D":
		// a valid entry by an authorised (colluding) writer whose refs (skip pointers) name the bad block
		payload, op := opPayload(c.Type, "k2", []byte("colluder-refs"))
		if m.Clock != nil && m.Clock.Time > env.ctime {
			env.ctime = m.Clock.Time
		}
		var next []cid.Cid
		for _, h := range world.Heads(cl.Stores[0]) {
			next = append(next, h.GetHash())
		}
		refs := []cid.Cid{m.Hash}
		switch c.Second {
		case "raw":
			if hs := world.Heads(cl.Stores[0]); len(hs) > 0 {
				raw := cid.NewCidV1(cid.Raw, hs[0].GetHash().Hash())
				env.hostile[raw.String()] = "honest bytes under an address they do not hash to (raw codec)"
				refs = append(refs, raw)
			}
		case "sibling":
			sp, _ := opPayload(c.Type, hostileMarker+"-key", []byte(hostileMarker+"-sibling"))
			se, err := env.craft(ctx, env.C, cl.Addr+"-other", sp, []cid.Cid{}, 1)
			if err != nil {
				return fail("harness: craft sibling entry: %v", err)
			}
			env.hostile[se.Hash.String()] = "entry written for another database"
			refs = append(refs, se.Hash)
		}
		if len(refs) > 1 {
			o.Labels = append(o.Labels, "two-classes-of-bad-refs:"+c.Second)
		}
		e, err := env.craftValidRefs(ctx, payload, next, refs)
		if err != nil {
			return fail("harness: craft colluding entry: %v", err)
		}
		env.registerCrafted(e, env.C, op)
		if err := env.deliver(ctx, c.Route, []*entry.Entry{e}); err != nil {
			return fail("harness: deliver: %v", err)
		}
	case "E":
		// a head that passes the announcement pre-check (authorised identity block, address matches the
		// content) but is refused at join (its signature does not verify), whose next names the bad block
		payload, _ := opPayload(c.Type, hostileMarker+"-key", []byte(hostileMarker+"-carrier"))
		if m.Clock != nil && m.Clock.Time > env.ctime {
			env.ctime = m.Clock.Time
		}
		e, err := env.craftValid(ctx, payload, []cid.Cid{m.Hash})
		if err != nil {
			return fail("harness: craft carrier: %v", err)
		}
		e.Sig = append([]byte{}, e.Sig...)
		e.Sig[len(e.Sig)/3] ^= 0x21
		if err := env.rehash(ctx, env.X, e); err != nil {
			return fail("harness: rehash: %v", err)
		}
		env.hostile[e.Hash.String()] = "carrier head with a broken signature"
		if err := env.deliver(ctx, c.Route, []*entry.Entry{e}); err != nil {
			return fail("harness: deliver: %v", err)
		}
	case "C":
		// a valid entry by an authorised (colluding) writer whose next names the bad block
		payload, op := opPayload(c.Type, "k2", []byte("colluder"))
		if m.Clock != nil && m.Clock.Time > env.ctime {
			env.ctime = m.Clock.Time
		}
		e, err := env.craftValid(ctx, payload, []cid.Cid{m.Hash})
		if err != nil {
			return fail("harness: craft colluding entry: %v", err)
		}
		env.registerCrafted(e, env.C, op)
		if err := env.deliver(ctx, c.Route, []*entry.Entry{e}); err != nil {
			return fail("harness: deliver: %v", err)
		}
	}
	if err := env.canary(ctx, c.Route); err != nil {
		if err == world.ErrInconclusive {
			o.Inconclusive = true
			return o
		}
		return fail("after delivering a bad entry (%s) by %s: %v", desc, c.Route, err)
	}
	if err := env.victimClean(); err != nil {
		return fail("%s, delivered by %s: %v", desc, c.Route, err)
	}
	now := hashSetOf(env.victim())
	for h := range held {
		if !now[h] {
			return fail("%s: valid entry %s held before is gone", desc, short(h))
		}
	}
	reached := len(cl.W.Peers[env.V].GetLog) > fetchedBefore
	if c.Restart {
		if err := env.victimRestartClean(ctx); err != nil {
			if err == world.ErrInconclusive {
				o.Inconclusive = true
				return o
			}
			return fail("%s, delivered by %s: %v", desc, c.Route, err)
		}
		o.Labels = append(o.Labels, "restart-after")
	}
	o.NonTrivial = bad && reached
	if bad {
		o.Labels = append(o.Labels, "bad:"+c.Field+"/"+form)
	}
	o.Labels = append(o.Labels, "route:"+c.Route)
	return o
}

func copyIdentity(i *identityprovider.Identity) *identityprovider.Identity {
	c := *i
	if i.Signatures != nil {
		s := *i.Signatures
		c.Signatures = &s
	}
	return &c
}

func boolp(b bool) *bool { return &b }

func TestC04(t *testing.T) { runCheck(t, "C04", genC04, execC04) }
