package checks

import (
	"crypto/sha1"
	"encoding/hex"
	"encoding/json"
	"fmt"
	"os"
	"path/filepath"
	"sort"
	"strings"
	"sync"
	"testing"
	"time"

	"pgregory.net/rapid"
)

// Outcome is what executing one generated case produced.
type Outcome struct {
	Err          error    // violation of the property (nil: held)
	Inconclusive bool     // deadline hit while still active: no verdict
	NonTrivial   bool     // by the property's stated rule
	Labels       []string // classification of the case
	Known        string   // failure matched this known-finding key (not a violation)
	Excluded     []string // classes excluded by construction in this case
}

type runStats struct {
	mu           sync.Mutex
	Property     string                 `json:"property"`
	Test         string                 `json:"test"`
	Evaluations  int                    `json:"evaluations"`
	Inconclusive int                    `json:"inconclusive"`
	Labels       map[string]int         `json:"labels"`
	Excluded     map[string]int         `json:"excluded"`
	KnownHits    map[string]int         `json:"known_hits"`
	NonTrivial   map[string]int         `json:"nontrivial_hashes"`
	Samples      []json.RawMessage      `json:"samples"`
	Violations   int                    `json:"violations"`
	Failure      string                 `json:"failure,omitempty"`
	Extra        map[string]interface{} `json:"extra,omitempty"`
}

func newStats(id string) *runStats {
	return &runStats{Property: id, Labels: map[string]int{}, Excluded: map[string]int{}, KnownHits: map[string]int{},
		NonTrivial: map[string]int{}, Extra: map[string]interface{}{}}
}

func outDir() string {
	d := os.Getenv("VERIF_OUT")
	if d == "" {
		d = os.TempDir()
	}
	return d
}

func knownKeys() map[string]bool {
	m := map[string]bool{}
	for _, k := range strings.Split(os.Getenv("VERIF_KNOWN"), ",") {
		if k = strings.TrimSpace(k); k != "" {
			m[k] = true
		}
	}
	return m
}

func isKnown(key string) bool { return knownKeys()[key] }

func tier() string {
	if t := os.Getenv("VERIF_TIER"); t != "" {
		return t
	}
	return "quick"
}

func thorough() bool { return tier() == "thorough" }

func (s *runStats) record(caseJSON []byte, o *Outcome) {
	s.mu.Lock()
	defer s.mu.Unlock()
	s.Evaluations++
	if o.Inconclusive {
		s.Inconclusive++
	}
	for _, l := range o.Labels {
		s.Labels[l]++
	}
	for _, l := range o.Excluded {
		s.Excluded[l]++
	}
	if o.Known != "" {
		s.KnownHits[o.Known]++
	}
	if o.NonTrivial {
		h := sha1.Sum(caseJSON)
		s.NonTrivial[hex.EncodeToString(h[:8])]++
		if len(s.Samples) < 3 && len(caseJSON) < 6000 {
			s.Samples = append(s.Samples, json.RawMessage(append([]byte{}, caseJSON...)))
		}
	}
}

func (s *runStats) write() {
	s.mu.Lock()
	defer s.mu.Unlock()
	b, _ := json.Marshal(s)
	_ = os.WriteFile(filepath.Join(outDir(), "stats-"+s.Property+"-"+s.Test+".json"), b, 0o644)
}

func writeFileAtomic(path string, b []byte) {
	tmp := path + ".tmp"
	_ = os.WriteFile(tmp, b, 0o644)
	_ = os.Rename(tmp, path)
}

// runCheck drives one property: in replay mode it executes the case in
// VERIF_REPLAY directly; otherwise it lets rapid generate cases.
func runCheck[C any](t *testing.T, id string, gen func(*rapid.T) C, exec func(C) *Outcome) {
	st := newStats(id)
	st.Test = t.Name()
	defer st.write()
	wrap := func(cj []byte) []byte {
		b, _ := json.Marshal(replayFile{Property: id, Test: t.Name(), Case: cj})
		return b
	}

	if path := os.Getenv("VERIF_REPLAY"); path != "" {
		b, err := os.ReadFile(path)
		if err != nil {
			t.Fatalf("cannot read replay file: %v", err)
		}
		var rf replayFile
		if err := json.Unmarshal(b, &rf); err != nil {
			t.Fatalf("cannot decode replay file: %v", err)
		}
		if rf.Test != t.Name() {
			t.Skipf("replay file is for %s", rf.Test)
		}
		var c C
		if err := json.Unmarshal(rf.Case, &c); err != nil {
			t.Fatalf("cannot decode replay case: %v", err)
		}
		cj, _ := json.Marshal(c)
		writeFileAtomic(filepath.Join(outDir(), "current-"+id+".json"), wrap(cj))
		for i, raw := range rf.Sequence {
			var pc C
			if err := json.Unmarshal(raw, &pc); err != nil {
				t.Fatalf("cannot decode case %d of the sequence: %v", i, err)
			}
			if po := exec(pc); po.Err != nil && po.Known == "" && !po.Inconclusive {
				st.Violations++
				st.Failure = po.Err.Error()
				fmt.Printf("REPLAY-FAIL property=%s: (case %d of the sequence) %v\n", id, i, po.Err)
				t.Fatalf("replay failed at case %d of the sequence: %v", i, po.Err)
			}
		}
		o := exec(c)
		st.record(cj, o)
		if o.Inconclusive {
			fmt.Printf("REPLAY-INCONCLUSIVE property=%s\n", id)
			return
		}
		if o.Err != nil && o.Known == "" {
			st.Violations++
			st.Failure = o.Err.Error()
			fmt.Printf("REPLAY-FAIL property=%s: %v\n", id, o.Err)
			t.Fatalf("replay failed: %v", o.Err)
		}
		if o.Known != "" {
			fmt.Printf("REPLAY-KNOWN property=%s key=%s: %v\n", id, o.Known, o.Err)
			return
		}
		fmt.Printf("REPLAY-PASS property=%s\n", id)
		return
	}

	// every case executed by this process up to its first failure, in order (see replayFile.Sequence)
	seqOpen, seqN := true, 0
	seqPath := filepath.Join(outDir(), "seq-"+id+".jsonl")
	rapid.Check(t, func(rt *rapid.T) {
		c := gen(rt)
		cj, err := json.Marshal(c)
		if err != nil {
			rt.Fatalf("case not serialisable: %v", err)
		}
		writeFileAtomic(filepath.Join(outDir(), "current-"+id+".json"), wrap(cj))
		if seqOpen && seqN < 3000 {
			if f, err := os.OpenFile(seqPath, os.O_APPEND|os.O_CREATE|os.O_WRONLY, 0o644); err == nil {
				f.Write(append(append([]byte{}, cj...), '\n'))
				f.Close()
				seqN++
			}
		}
		t0 := time.Now()
		o := exec(c)
		if d := time.Since(t0); d > 5*time.Second || o.Inconclusive {
			if f, err := os.OpenFile(filepath.Join(outDir(), "slow-"+id+".log"), os.O_APPEND|os.O_CREATE|os.O_WRONLY, 0o644); err == nil {
				fmt.Fprintf(f, "%s %.1fs inconclusive=%v %s\n", t.Name(), d.Seconds(), o.Inconclusive, wrap(cj))
				f.Close()
			}
		}
		st.record(cj, o)
		if o.Inconclusive || o.Known != "" {
			return
		}
		if o.Err != nil {
			st.mu.Lock()
			st.Violations++
			st.Failure = o.Err.Error()
			st.mu.Unlock()
			if seqOpen {
				seqOpen = false
				writeFileAtomic(filepath.Join(outDir(), "failing-"+id+".json"), wrap(cj))
			}
			rt.Fatalf("property %s violated: %v", id, o.Err)
		}
	})
}

// fuzzOne runs one fuzz-generated case through the journaling protocol; replayTest names the
// rapid test that can re-execute the saved case.
func fuzzOne[C any](t *testing.T, id, replayTest string, c C, exec func(C) *Outcome) {
	cj, _ := json.Marshal(c)
	wrapped, _ := json.Marshal(replayFile{Property: id, Test: replayTest, Case: cj})
	// one journal per worker process: fuzz workers run in parallel
	cur := filepath.Join(outDir(), fmt.Sprintf("current-%s-fuzz-%d.json", id, os.Getpid()))
	writeFileAtomic(cur, wrapped)
	o := exec(c)
	if o.Inconclusive || o.Known != "" {
		return
	}
	if o.Err != nil {
		writeFileAtomic(filepath.Join(outDir(), "failing-"+id+".json"), wrapped)
		t.Fatalf("property %s violated: %v", id, o.Err)
	}
	_ = os.Remove(cur)
}

type replayFile struct {
	Property string          `json:"property"`
	Test     string          `json:"test"`
	Case     json.RawMessage `json:"case"`
	Note     string          `json:"note,omitempty"`
	// Sequence, when present, lists the cases the generating process had executed before Case, in order:
	// a failure that needs them (state shared between the instances of one process) replays with them
	Sequence []json.RawMessage `json:"sequence,omitempty"`
}

// runEnum drives an enumerated (non-random) list of cases through the same
// journaling / replay / statistics protocol as runCheck. It stops at the first
// violation.
func runEnum[C any](t *testing.T, id string, cases []C, exec func(C) *Outcome) {
	if os.Getenv("VERIF_REPLAY") != "" {
		runCheck(t, id, func(*rapid.T) C { var c C; return c }, exec)
		return
	}
	st := newStats(id)
	st.Test = t.Name()
	defer st.write()
	shard, shards := 0, 1
	fmt.Sscan(os.Getenv("VERIF_SHARD"), &shard)
	fmt.Sscan(os.Getenv("VERIF_SHARDS"), &shards)
	if shards < 1 {
		shards = 1
	}
	for i, c := range cases {
		if i%shards != shard {
			continue
		}
		cj, _ := json.Marshal(c)
		wrapped, _ := json.Marshal(replayFile{Property: id, Test: t.Name(), Case: cj})
		writeFileAtomic(filepath.Join(outDir(), "current-"+id+".json"), wrapped)
		o := exec(c)
		st.record(cj, o)
		if o.Inconclusive || o.Known != "" {
			continue
		}
		if o.Err != nil {
			st.Violations++
			st.Failure = o.Err.Error()
			writeFileAtomic(filepath.Join(outDir(), "failing-"+id+".json"), wrapped)
			t.Fatalf("property %s violated on enumerated case %d: %v", id, i, o.Err)
		}
	}
	st.Extra["enumerated_cases_total"] = len(cases)
}

func sortedKeys[V any](m map[string]V) []string {
	ks := make([]string, 0, len(m))
	for k := range m {
		ks = append(ks, k)
	}
	sort.Strings(ks)
	return ks
}

func fail(format string, args ...interface{}) *Outcome {
	return &Outcome{Err: fmt.Errorf(format, args...)}
}
