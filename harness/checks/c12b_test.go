package checks

import (
	"bytes"
	"context"
	"encoding/binary"
	"fmt"
	"sync"
	"testing"
	"time"

	"berty.tech/go-orbit-db/iface"
	"berty.tech/go-orbit-db/pubsub/directchannel"
	mocknet "github.com/libp2p/go-libp2p/p2p/net/mock"
	"go.uber.org/zap"
	"pgregory.net/rapid"
	"verif/harness/world"
)

// C12 (3) / C20 (c) — raw frames on a /go-orbit-db/direct-channel stream.

type FrameC12 struct {
	Prefix  string `json:"prefix"` // exact | zero | short | long | over | over1 | huge63 | huge64 | ff10 | none | raw
	Raw     []byte `json:"raw,omitempty"`
	BodyLen int    `json:"body_len"`
	Cut     int    `json:"cut"` // bytes of the body actually written (-1: all)
}

type CaseC12b struct {
	Frames []FrameC12 `json:"frames"`
}

func genC12b(rt *rapid.T) CaseC12b {
	var c CaseC12b
	// (one case in four sends a long series: a resource that leaks per refused frame runs out only then)
	n := rapid.OneOf(rapid.IntRange(1, 4), rapid.IntRange(1, 4), rapid.IntRange(1, 4), rapid.IntRange(9, 20)).Draw(rt, "nframes")
	kinds := []string{"exact", "exact", "zero", "short", "long", "over", "over1", "huge63", "huge64", "ff10", "none", "raw"}
	dom := ""
	if n >= 9 {
		// in a long series one kind of frame dominates (three frames in four)
		dom = rapid.SampledFrom(kinds).Draw(rt, "dominant")
	}
	for i := 0; i < n; i++ {
		pk := rapid.SampledFrom(kinds).Draw(rt, "prefix")
		if dom != "" && rapid.IntRange(0, 3).Draw(rt, "useDominant") != 0 {
			pk = dom
		}
		f := FrameC12{
			Prefix:  pk,
			BodyLen: rapid.OneOf(rapid.IntRange(0, 3), rapid.IntRange(126, 130), rapid.IntRange(16382, 16386), rapid.IntRange(0, 70000)).Draw(rt, "bodylen"),
			Cut:     rapid.OneOf(rapid.Just(-1), rapid.Just(-1), rapid.IntRange(0, 200)).Draw(rt, "cut"),
		}
		if f.Prefix == "raw" {
			f.Raw = rapid.SliceOfN(rapid.Byte(), 0, 12).Draw(rt, "rawbytes")
		}
		c.Frames = append(c.Frames, f)
	}
	return c
}

type collectEmitter struct {
	mu  sync.Mutex
	got []*iface.EventPubSubPayload
}

func (c *collectEmitter) Emit(e *iface.EventPubSubPayload) error {
	c.mu.Lock()
	c.got = append(c.got, e)
	c.mu.Unlock()
	return nil
}
func (c *collectEmitter) Close() error { return nil }
func (c *collectEmitter) count() int {
	c.mu.Lock()
	defer c.mu.Unlock()
	return len(c.got)
}

func execC12b(c CaseC12b) *Outcome {
	ctx, cancel := context.WithCancel(context.Background())
	defer cancel()
	o := &Outcome{}
	mn := mocknet.New()
	defer mn.Close()
	ha, err := mn.GenPeer()
	if err != nil {
		return fail("harness: %v", err)
	}
	hb, err := mn.GenPeer()
	if err != nil {
		return fail("harness: %v", err)
	}
	if err := mn.LinkAll(); err != nil {
		return fail("harness: %v", err)
	}
	if err := mn.ConnectAllButSelf(); err != nil {
		return fail("harness: %v", err)
	}
	emB := &collectEmitter{}
	chB, err := directchannel.InitDirectChannelFactory(zap.NewNop(), hb)(ctx, emB, nil)
	if err != nil {
		return fail("harness: %v", err)
	}
	defer chB.Close()
	emA := &collectEmitter{}
	chA, err := directchannel.InitDirectChannelFactory(zap.NewNop(), ha)(ctx, emA, nil)
	if err != nil {
		return fail("harness: %v", err)
	}
	defer chA.Close()

	var expect [][]byte
	pastPrefix := false
	hostileStuck := false
	for fi, f := range c.Frames {
		body := bytes.Repeat([]byte{byte('a' + fi)}, f.BodyLen)
		var prefix []byte
		put := func(v uint64) []byte {
			b := make([]byte, binary.MaxVarintLen64)
			return b[:binary.PutUvarint(b, v)]
		}
		deliverable := false
		switch f.Prefix {
		case "exact":
			prefix = put(uint64(len(body)))
			deliverable = f.Cut < 0 || f.Cut >= len(body)
		case "zero":
			prefix = put(0)
			body = nil
			deliverable = true
		case "short": // announces fewer bytes than are written: the announced part is a valid frame
			if len(body) == 0 {
				body = []byte("xy")
			}
			prefix = put(uint64(len(body) - 1))
			if f.Cut < 0 || f.Cut >= len(body)-1 {
				deliverable = true
				expect = append(expect, body[:len(body)-1])
			}
		case "long": // announces more than is written: must be dropped
			prefix = put(uint64(len(body) + 5))
		case "over":
			prefix = put(uint64(directchannel.DelimitedReadMaxSize) + 1)
		case "over1":
			prefix = put(uint64(directchannel.DelimitedReadMaxSize) * 3)
		case "huge63":
			prefix = put(1 << 63)
		case "huge64":
			prefix = put(^uint64(0))
		case "ff10":
			prefix = bytes.Repeat([]byte{0xff}, 10)
		case "none":
			prefix = nil
			body = nil
		case "raw":
			prefix = f.Raw
			body = nil
		}
		if f.Prefix == "exact" && deliverable {
			expect = append(expect, body)
		}
		if f.Prefix == "zero" {
			expect = append(expect, []byte{})
		}
		if f.Prefix == "raw" {
			// whatever the raw prefix decodes to, it may or may not form a frame: judged below by content only
			expect = nil
			pastPrefix = true
		}
		if f.Prefix != "none" && f.Prefix != "ff10" {
			pastPrefix = true
		}
		w := body
		if f.Cut >= 0 && f.Cut < len(body) {
			w = body[:f.Cut]
		}
		// (written from a goroutine: a receiver that has stopped reading must not park the harness - whether it
		// still handles valid traffic is decided by the valid Send below)
		wrote := make(chan error, 1)
		go func() {
			s, err := ha.NewStream(ctx, hb.ID(), directchannel.PROTOCOL)
			if err != nil {
				wrote <- err
				return
			}
			_, _ = s.Write(prefix)
			if len(w) > 0 {
				_, _ = s.Write(w)
			}
			_ = s.Close()
			wrote <- nil
		}()
		stuck := false
		select {
		case err := <-wrote:
			if err != nil {
				return fail("harness: cannot open stream: %v", err)
			}
		case <-time.After(3 * time.Second):
			stuck = true
		}
		_ = deliverable
		if stuck {
			expect = nil
			pastPrefix = true
			hostileStuck = true
			break
		}
		time.Sleep(2 * time.Millisecond)
	}
	// later valid traffic must still be delivered, intact and attributed
	final := []byte(fmt.Sprintf("final-%d", len(c.Frames)))
	before := emB.count()
	var sendErr error
	if gerr := guarded("a valid Send after the hostile frames", func() { sendErr = chA.Send(ctx, hb.ID(), final) }); gerr != nil {
		cancel()
		return fail("%v (the receiver no longer reads incoming streams)", gerr)
	}
	if sendErr != nil {
		return fail("a valid Send after the hostile frames failed: %v", sendErr)
	}
	if !world.WaitFor(func() bool {
		emB.mu.Lock()
		defer emB.mu.Unlock()
		for _, e := range emB.got[min(before, len(emB.got)):] {
			if bytes.Equal(e.Payload, final) {
				return true
			}
		}
		for _, e := range emB.got {
			if bytes.Equal(e.Payload, final) {
				return true
			}
		}
		return false
	}, 20*time.Second) {
		return fail("a valid payload sent after the hostile frames was never delivered")
	}
	emB.mu.Lock()
	defer emB.mu.Unlock()
	hasRaw := false
	for _, f := range c.Frames {
		// raw prefixes may or may not form a frame; a frame followed by trailing bytes ("short") may be
		// delivered as announced or refused: both are within the statement, so only content rules apply
		if f.Prefix == "raw" || f.Prefix == "short" || hostileStuck {
			hasRaw = true
		}
	}
	finals := 0
	var others [][]byte
	for _, e := range emB.got {
		if e.Peer != ha.ID() {
			return fail("a payload was attributed to %s, the only sender is %s", e.Peer, ha.ID())
		}
		if len(e.Payload) > directchannel.DelimitedReadMaxSize {
			return fail("a payload of %d bytes (over the frame limit) was delivered", len(e.Payload))
		}
		if bytes.Equal(e.Payload, final) {
			finals++
			continue
		}
		others = append(others, e.Payload)
	}
	if finals != 1 {
		return fail("the valid payload was delivered %d times", finals)
	}
	if !hasRaw {
		if len(others) != len(expect) {
			return fail("%d payloads were delivered from the hostile frames, %d of them were complete valid frames", len(others), len(expect))
		}
		for i := range others {
			if !bytes.Equal(others[i], expect[i]) {
				return fail("delivered payload %d differs from the frame that was sent (%d vs %d bytes)", i, len(others[i]), len(expect[i]))
			}
		}
	}
	if emA.count() != 0 {
		return fail("the sender received %d payload(s) itself", emA.count())
	}
	o.NonTrivial = pastPrefix
	for _, f := range c.Frames {
		o.Labels = append(o.Labels, "prefix:"+f.Prefix)
	}
	return o
}

func TestC12Frame(t *testing.T) { runCheck(t, "C12", genC12b, execC12b) }

// FuzzC12Frame: coverage-guided raw bytes written to a direct-channel stream (thorough tier).
func FuzzC12Frame(f *testing.F) {
	f.Add([]byte{0})
	f.Add([]byte{3, 'a', 'b', 'c'})
	f.Add([]byte{0xff, 0xff, 0xff, 0xff, 0xff, 0xff, 0xff, 0xff, 0xff, 0x01})
	f.Add([]byte{0x80, 0x80, 0x80, 0x80, 0x80, 0x80, 0x80, 0x80, 0x80, 0x01})
	f.Add([]byte{0x81, 0x80, 0x80, 0x02})
	f.Fuzz(func(t *testing.T, data []byte) {
		if len(data) > 4096 {
			data = data[:4096]
		}
		c := CaseC12b{Frames: []FrameC12{{Prefix: "raw", Raw: data}}}
		fuzzOne(t, "C12", "TestC12Frame", c, execC12b)
	})
}
