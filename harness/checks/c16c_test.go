package checks

import (
	"context"
	"fmt"
	"sync"
	"testing"
	"time"

	ipfslog "berty.tech/go-ipfs-log"

	"berty.tech/go-orbit-db/iface"
	"berty.tech/go-orbit-db/stores"
	"berty.tech/go-orbit-db/stores/operation"
	"github.com/libp2p/go-libp2p/p2p/host/eventbus"
	"verif/harness/world"
)

// C16 (c) — "never ahead of the state they announce", decided without racing:
// the subscriber's channel has no buffer and the harness refuses to receive
// until the store's state reflects the operation. The event bus delivers
// synchronously, so if the store emitted the event before updating its view
// the emitting goroutine is parked inside Emit and the view can never catch up.

func execC16c(c CaseC16b) *Outcome {
	ctx, cancel := context.WithCancel(context.Background())
	defer cancel()
	o := &Outcome{}
	world.ResetHooks()
	no := false
	cl, err := world.NewCluster(ctx, world.ClusterOpts{N: 1 + c.Others, Type: c.Type, Replicate: &no})
	if err != nil {
		return fail("harness: cluster: %v", err)
	}
	defer cl.Close()
	s0 := cl.Stores[0]
	sub, err := s0.EventBus().Subscribe([]interface{}{new(stores.EventWrite), new(stores.EventReplicated)}, eventbus.BufSize(0))
	if err != nil {
		return fail("harness: subscribe: %v", err)
	}
	// on exit keep draining so that nothing stays parked in Emit
	defer func() {
		go func() {
			for range sub.Out() {
			}
		}()
		time.AfterFunc(2*time.Second, func() { sub.Close() })
	}()

	visible := func(w, key int, val string) bool {
		switch c.Type {
		case "eventlog":
			m1 := -1
			ops, err := s0.(iface.EventLogStore).List(ctx, &iface.StreamOptions{Amount: &m1})
			if err != nil {
				return false
			}
			for _, op := range ops {
				if string(op.GetValue()) == val {
					return true
				}
			}
			return false
		default:
			got, _ := s0.(iface.KeyValueStore).Get(ctx, fmt.Sprintf("w%d-k%d", w, key))
			return string(got) == val
		}
	}
	recv := func(timeout time.Duration) (interface{}, bool) {
		select {
		case e, ok := <-sub.Out():
			return e, ok
		case <-time.After(timeout):
			return nil, false
		}
	}
	var batchMu sync.Mutex
	var batches [][]string
	batchesDone := 0
	removeHook := world.AddHook(func(name string, subject interface{}, args []interface{}) {
		if name != "replicator.loadend.emit" || subject != interface{}(s0.Replicator()) {
			return
		}
		logs, _ := args[0].([]ipfslog.Log)
		var hs []string
		for _, l := range logs {
			for _, e := range l.GetEntries().Slice() {
				if e.GetLogID() == s0.OpLog().GetID() {
					hs = append(hs, e.GetHash().String())
				}
			}
		}
		batchMu.Lock()
		batches = append(batches, hs)
		batchMu.Unlock()
	})
	defer removeHook()
	cnt := 0
	lastVal := map[[2]int]string{} // latest value per (writer,key) written so far
	writeOn := func(s iface.Store, w, key int, val string) (string, error) {
		switch c.Type {
		case "eventlog":
			op, err := s.(iface.EventLogStore).Add(ctx, []byte(val))
			if err != nil {
				return "", err
			}
			return op.GetEntry().GetHash().String(), nil
		default:
			op, err := s.(iface.KeyValueStore).Put(ctx, fmt.Sprintf("w%d-k%d", w, key), []byte(val))
			if err != nil {
				return "", err
			}
			return op.GetEntry().GetHash().String(), nil
		}
	}
	merges, writes := 0, 0
	for i, st := range c.Steps {
		switch st.Kind {
		case "local":
			n := st.N
			if n > 6 {
				n = 6
			}
			for j := 0; j < n; j++ {
				val := fmt.Sprintf("v%d", cnt)
				cnt++
				type res struct {
					h   string
					err error
				}
				done := make(chan res, 1)
				go func() {
					h, err := writeOn(s0, 0, st.Key, val)
					done <- res{h, err}
				}()
				returned := false
				var r res
				ok := world.WaitFor(func() bool {
					select {
					case r = <-done:
						returned = true
					default:
					}
					return visible(0, st.Key, val)
				}, 8*time.Second)
				if !ok {
					if returned {
						if r.err != nil {
							return fail("step %d: write failed: %v", i, r.err)
						}
						return fail("step %d: the write call returned but the view never showed the value", i)
					}
					return fail("step %d: the write call is parked (the subscriber has not taken the write event yet) and the view does not show the written value: the event was emitted ahead of the state it announces", i)
				}
				e, got := recv(8 * time.Second)
				if !got {
					return fail("step %d: the view shows the write but no write event was emitted", i)
				}
				ew, isW := e.(stores.EventWrite)
				if !isW {
					return fail("step %d: expected a write event, got %T", i, e)
				}
				op, err := operation.ParseOperation(ew.Entry)
				if err != nil || string(op.GetValue()) != val {
					return fail("step %d: the write event carries a different entry than the one written", i)
				}
				if !returned {
					select {
					case r = <-done:
					case <-time.After(8 * time.Second):
						o.Inconclusive = true
						return o
					}
				}
				if r.err != nil {
					return fail("step %d: write failed: %v", i, r.err)
				}
				if r.h != ew.Entry.GetHash().String() {
					return fail("step %d: the write event's entry %s is not the entry the call returned %s", i, short(ew.Entry.GetHash().String()), short(r.h))
				}
				lastVal[[2]int{0, st.Key}] = val
				writes++
			}
		case "remote":
			w := 1 + (st.W-1)%c.Others
			for j := 0; j < st.N; j++ {
				val := fmt.Sprintf("v%d", cnt)
				cnt++
				if _, err := writeOn(cl.Stores[w], w, st.Key, val); err != nil {
					return fail("step %d: remote write failed: %v", i, err)
				}
				lastVal[[2]int{w, st.Key}] = val
			}
		case "merge":
			src := 1 + (st.W-1)%c.Others
			have := hashSetOf(s0)
			var fresh []string
			for _, h := range world.HashSet(cl.Stores[src]) {
				if !have[h] {
					fresh = append(fresh, h)
				}
			}
			if len(fresh) == 0 {
				continue
			}
			heads, err := cloneHeads(world.Heads(cl.Stores[src]))
			if err != nil {
				return fail("harness: %v", err)
			}
			if err := s0.Sync(ctx, heads); err != nil {
				return fail("step %d: Sync: %v", i, err)
			}
			// batches are announced by the replicator hook; for each one the merged
			// entries must become visible while its replicated event is still undelivered
			announced := map[string]bool{}
			for len(announced) < len(fresh) {
				var batch []string
				if !world.WaitFor(func() bool {
					batchMu.Lock()
					defer batchMu.Unlock()
					if len(batches) > batchesDone {
						batch = batches[batchesDone]
						return true
					}
					return false
				}, 15*time.Second) {
					o.Inconclusive = true // nothing was merged at all: not this property's business
					return o
				}
				batchesDone++
				inView := func() bool {
					h0 := hashSetOf(s0)
					for _, h := range batch {
						if !h0[h] {
							return false
						}
					}
					if c.Type == "eventlog" {
						listed := map[string]bool{}
						m1 := -1
						ops, _ := s0.(iface.EventLogStore).List(ctx, &iface.StreamOptions{Amount: &m1})
						for _, op := range ops {
							listed[op.GetEntry().GetHash().String()] = true
						}
						for _, h := range batch {
							if !listed[h] {
								return false
							}
						}
						return true
					}
					// key-value: every key of the batch shows the newest value its writer has written so far
					for _, h := range batch {
						e, ok := s0.OpLog().Get(mustCid(h))
						if !ok {
							return false
						}
						op, err := operation.ParseOperation(e)
						if err != nil || op.GetKey() == nil {
							return false
						}
						var w, k int
						fmt.Sscanf(*op.GetKey(), "w%d-k%d", &w, &k)
						cur, _ := s0.(iface.KeyValueStore).Get(ctx, *op.GetKey())
						srcCur, _ := cl.Stores[src].(iface.KeyValueStore).Get(ctx, *op.GetKey())
						if string(cur) != string(srcCur) {
							return false
						}
					}
					return true
				}
				if !world.WaitFor(inView, 8*time.Second) {
					r := s0.Replicator()
					if world.HookCount("replicator.loadend.emit", r) > world.HookCount("store.loadcomplete.done", r) {
						return fail("step %d: a merged batch of %d entries is being completed (its replicated event is not taken by the subscriber yet) but the log/view do not show those entries: the event was emitted ahead of the state it announces", i, len(batch))
					}
					o.Inconclusive = true
					return o
				}
				e, got := recv(8 * time.Second)
				if !got {
					return fail("step %d: the merged entries are visible but no replicated event was emitted", i)
				}
				er, isR := e.(stores.EventReplicated)
				if !isR {
					return fail("step %d: expected a replicated event, got %T", i, e)
				}
				evh := map[string]bool{}
				for _, en := range er.Entries {
					evh[en.GetHash().String()] = true
					announced[en.GetHash().String()] = true
				}
				for _, h := range batch {
					if !evh[h] {
						return fail("step %d: the replicated event does not carry merged entry %s", i, short(h))
					}
				}
			}
			if !cl.W.WaitQuiescent([]iface.Store{s0}, nil, 10*time.Second) {
				o.Inconclusive = true
				return o
			}
			merges++
		}
	}
	if _, extra := recv(5 * time.Millisecond); extra {
		return fail("an extra store event was emitted after every write and batch had been accounted for")
	}
	o.NonTrivial = merges > 0 && writes > 0
	if merges > 0 {
		o.Labels = append(o.Labels, "with-replication")
	}
	return o
}

func TestC16Strict(t *testing.T) { runCheck(t, "C16", genC16b, execC16c) }
