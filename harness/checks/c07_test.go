package checks

import (
	orbitdb "berty.tech/go-orbit-db"
	"context"
	"encoding/json"
	"fmt"
	"sort"
	"strings"
	"testing"

	"berty.tech/go-orbit-db/iface"
	"pgregory.net/rapid"
	"verif/harness/model"
	"verif/harness/world"
)

// C07 — document store equals last-writer-wins replay, including batch puts.

// (keys with punctuation that means something to a pattern matcher are plain text to the store)
var docKeys = []string{"a", "A", "ab", "Ab", "b.c", "B.C", "x-1", "k_é", "K_É", "ab9", "a+b", "aab", "x|y", "c(1", "*", "[z]", "q?", "$d", "^h", "a\\b", "b{2}"}

type DocOpC07 struct {
	Kind string `json:"kind"` // put | putbatch | putall | del | sync
	W    int    `json:"w"`
	Keys []int  `json:"keys,omitempty"`
	Val  int    `json:"val,omitempty"`
	From int    `json:"from,omitempty"`
}

type QueryC07 struct {
	Search  string `json:"search"`
	CI      bool   `json:"ci"`
	Partial bool   `json:"partial"`
	Pred    string `json:"pred"` // true | veq | tagprefix | vgt
	N       int    `json:"n"`
}

type CaseC07 struct {
	Writers int        `json:"writers"`
	Ops     []DocOpC07 `json:"ops"`
	Queries []QueryC07 `json:"queries"`
}

func genC07(rt *rapid.T) CaseC07 {
	c := CaseC07{Writers: rapid.IntRange(1, 3).Draw(rt, "writers")}
	maxOps := 14
	if thorough() {
		maxOps = 24
	}
	n := rapid.IntRange(1, maxOps).Draw(rt, "nops")
	// each case works on a small pool of keys drawn from the list (so that deletes keep hitting documents that
	// exist and puts keep replacing them), different pools bring the different kinds of key into play
	pool := rapid.SliceOfNDistinct(rapid.IntRange(0, len(docKeys)-1), 5, 9, func(x int) int { return x }).Draw(rt, "keypool")
	keyIdx := rapid.SampledFrom(pool)
	for i := 0; i < n; i++ {
		kinds := []string{"put", "put", "put", "putall", "putall", "putall", "putbatch", "del", "del", "del", "reopen", "rsync", "rsync", "rreopen"}
		if c.Writers > 1 {
			kinds = append(kinds, "sync", "sync")
		}
		op := DocOpC07{Kind: rapid.SampledFrom(kinds).Draw(rt, "kind"), W: rapid.IntRange(0, c.Writers-1).Draw(rt, "w")}
		switch op.Kind {
		case "put", "del":
			op.Keys = []int{keyIdx.Draw(rt, "key")}
			op.Val = rapid.IntRange(0, 50).Draw(rt, "val")
		case "putall", "putbatch":
			op.Keys = rapid.SliceOfN(keyIdx, 0, 4).Draw(rt, "keys")
			op.Val = rapid.IntRange(0, 50).Draw(rt, "val")
		case "sync", "rsync":
			op.From = rapid.IntRange(0, c.Writers-1).Draw(rt, "from")
		}
		c.Ops = append(c.Ops, op)
	}
	nq := rapid.IntRange(1, 5).Draw(rt, "nq")
	for i := 0; i < nq; i++ {
		base := docKeys[keyIdx.Draw(rt, "qk")]
		s := base
		switch rapid.IntRange(0, 4).Draw(rt, "qform") {
		case 1:
			s = strings.ToUpper(base)
		case 2:
			s = strings.ToLower(base)
		case 3:
			r := []rune(base)
			s = string(r[:rapid.IntRange(1, len(r)).Draw(rt, "qcut")])
		case 4:
			r := []rune(base)
			s = string(r[rapid.IntRange(0, len(r)-1).Draw(rt, "qcut2"):])
		}
		c.Queries = append(c.Queries, QueryC07{
			Search: s, CI: rapid.Bool().Draw(rt, "ci"), Partial: rapid.Bool().Draw(rt, "partial"),
			Pred: rapid.SampledFrom([]string{"true", "veq", "tagprefix", "vgt"}).Draw(rt, "pred"),
			N:    rapid.IntRange(0, 50).Draw(rt, "n"),
		})
	}
	return c
}

func docFor(key string, val int, member int) map[string]interface{} {
	return map[string]interface{}{"_id": key, "v": val, "tag": fmt.Sprintf("t%d-%d", val%7, member)}
}

func docBytes(d map[string]interface{}) []byte {
	b, _ := json.Marshal(d)
	return b
}

func canonDocs(ds []interface{}) ([]string, error) {
	out := make([]string, 0, len(ds))
	for _, d := range ds {
		b, err := json.Marshal(d)
		if err != nil {
			return nil, err
		}
		out = append(out, string(b))
	}
	sort.Strings(out)
	return out, nil
}

func canonModel(m map[string][]byte, keep func(key string, doc map[string]interface{}) bool) []string {
	out := []string{}
	for k, v := range m {
		var d map[string]interface{}
		_ = json.Unmarshal(v, &d)
		if keep(k, d) {
			b, _ := json.Marshal(d)
			out = append(out, string(b))
		}
	}
	sort.Strings(out)
	return out
}

func eqStrings(a, b []string) bool {
	if len(a) != len(b) {
		return false
	}
	for i := range a {
		if a[i] != b[i] {
			return false
		}
	}
	return true
}

func predC07(q QueryC07) func(map[string]interface{}) bool {
	return func(d map[string]interface{}) bool {
		v, _ := d["v"].(float64)
		tag, _ := d["tag"].(string)
		switch q.Pred {
		case "veq":
			return int(v) == q.N
		case "tagprefix":
			return strings.HasPrefix(tag, fmt.Sprintf("t%d", q.N%7))
		case "vgt":
			return int(v) > q.N
		}
		return true
	}
}

// checkDocs compares one replica with the model, with the given queries.
func checkDocs(tr *tracker, s iface.Store, qs []QueryC07) error {
	ctx := context.Background()
	ds := s.(iface.DocumentStore)
	order, err := tr.checkOrder(s)
	if err != nil {
		return err
	}
	want := model.Replay(tr.opsIn(order))
	all, err := ds.Query(ctx, func(interface{}) (bool, error) { return true, nil })
	if err != nil {
		return fmt.Errorf("Query(true) failed: %v", err)
	}
	got, err := canonDocs(all)
	if err != nil {
		return err
	}
	exp := canonModel(want, func(string, map[string]interface{}) bool { return true })
	if !eqStrings(got, exp) {
		return fmt.Errorf("Query(true) = %v, last-writer-wins replay of the log gives %v", got, exp)
	}
	for _, q := range qs {
		res, err := ds.Get(ctx, q.Search, &iface.DocumentStoreGetOptions{CaseInsensitive: q.CI, PartialMatches: q.Partial})
		if err != nil {
			return fmt.Errorf("Get(%q) failed: %v", q.Search, err)
		}
		got, err := canonDocs(res)
		if err != nil {
			return err
		}
		exp := canonModel(want, func(k string, _ map[string]interface{}) bool { return model.DocMatch(k, q.Search, q.CI, q.Partial) })
		if !eqStrings(got, exp) {
			return fmt.Errorf("Get(%q, ci=%v, partial=%v) = %v, model gives %v", q.Search, q.CI, q.Partial, got, exp)
		}
		p := predC07(q)
		res, err = ds.Query(ctx, func(d interface{}) (bool, error) { return p(d.(map[string]interface{})), nil })
		if err != nil {
			return fmt.Errorf("Query(%s) failed: %v", q.Pred, err)
		}
		got, err = canonDocs(res)
		if err != nil {
			return err
		}
		exp = canonModel(want, func(_ string, d map[string]interface{}) bool { return p(d) })
		if !eqStrings(got, exp) {
			return fmt.Errorf("Query(%s %d) = %v, model gives %v", q.Pred, q.N, got, exp)
		}
	}
	return nil
}

func execC07(c CaseC07) *Outcome {
	ctx := context.Background()
	o := &Outcome{}
	world.ResetHooks()
	no := false
	cl, err := world.NewCluster(ctx, world.ClusterOpts{N: c.Writers + 1, Type: "docstore", Replicate: &no}) // the last replica only reads
	if err != nil {
		return fail("harness: cluster: %v", err)
	}
	defer cl.Close()
	tr := newTracker()
	single := map[string]bool{}
	batch := map[string]bool{}
	for step, op := range c.Ops {
		w := op.W % c.Writers
		s := cl.Stores[w]
		ds := s.(iface.DocumentStore)
		before := hashSetOf(s)
		switch op.Kind {
		case "put":
			k := docKeys[op.Keys[0]]
			d := docFor(k, op.Val, 0)
			if _, err := ds.Put(ctx, d); err != nil {
				return fail("step %d: Put(%q) failed: %v", step, k, err)
			}
			if err := tr.noteWrites(s, w, before, []model.Op{{Kind: "PUT", Key: k, Val: docBytes(d)}}); err != nil {
				return fail("step %d: %v", step, err)
			}
			single[k] = true
		case "putbatch":
			var vals []interface{}
			var ops []model.Op
			for i, ki := range op.Keys {
				d := docFor(docKeys[ki], op.Val, i)
				vals = append(vals, d)
				ops = append(ops, model.Op{Kind: "PUT", Key: docKeys[ki], Val: docBytes(d)})
				single[docKeys[ki]] = true
			}
			_, err := ds.PutBatch(ctx, vals)
			if len(vals) == 0 {
				if err == nil {
					o.Labels = append(o.Labels, "empty-putbatch-accepted")
				}
			} else if err != nil {
				return fail("step %d: PutBatch failed: %v", step, err)
			}
			if err := tr.noteWrites(s, w, before, ops); err != nil {
				return fail("step %d: PutBatch: %v", step, err)
			}
		case "putall":
			var vals []interface{}
			mop := model.Op{Kind: "PUTALL"}
			for i, ki := range op.Keys {
				d := docFor(docKeys[ki], op.Val, i)
				vals = append(vals, d)
				mop.Docs = append(mop.Docs, model.Doc{Key: docKeys[ki], Val: docBytes(d)})
				batch[docKeys[ki]] = true
			}
			if _, err := ds.PutAll(ctx, vals); err != nil {
				return fail("step %d: PutAll failed: %v", step, err)
			}
			if err := tr.noteWrites(s, w, before, []model.Op{mop}); err != nil {
				return fail("step %d: PutAll: %v", step, err)
			}
		case "del":
			k := docKeys[op.Keys[0]]
			order, err := tr.checkOrder(s)
			if err != nil {
				return fail("step %d: %v", step, err)
			}
			_, present := model.Replay(tr.opsIn(order))[k]
			_, err = ds.Delete(ctx, k)
			if present {
				if err != nil {
					return fail("step %d: Delete(%q) of a present key failed: %v", step, k, err)
				}
				if err := tr.noteWrites(s, w, before, []model.Op{{Kind: "DEL", Key: k}}); err != nil {
					return fail("step %d: %v", step, err)
				}
				single[k] = true
				o.Labels = append(o.Labels, "delete-present")
			} else {
				if err == nil {
					return fail("step %d: Delete(%q) of a key absent from replica %d was accepted", step, k, w)
				}
				if err := tr.noteWrites(s, w, before, nil); err != nil {
					return fail("step %d: refused Delete still appended: %v", step, err)
				}
				o.Labels = append(o.Labels, "delete-absent")
			}
		case "rsync", "rreopen":
			// the read-only replica (it never writes): it merges a writer's log, or restarts and rebuilds its view
			reader := c.Writers
			if op.Kind == "rsync" {
				src := op.From % c.Writers
				if cl.Stores[src].OpLog().Len() == 0 {
					continue
				}
				if err := syncFrom(cl, reader, src); err != nil {
					if err == world.ErrInconclusive {
						o.Inconclusive = true
						return o
					}
					return fail("step %d: reader sync <-%d: %v", step, src, err)
				}
			} else {
				if err := cl.ReopenWith(ctx, reader, -1, &orbitdb.CreateDBOptions{Replicate: &no}); err != nil {
					return fail("step %d: the read-only replica cannot restart and load: %v", step, err)
				}
			}
			o.Labels = append(o.Labels, "reader:"+op.Kind)
		case "reopen":
			// the replica restarts and rebuilds its documents from storage
			if err := cl.ReopenWith(ctx, w, -1, &orbitdb.CreateDBOptions{Replicate: &no}); err != nil {
				return fail("step %d: replica %d cannot restart and load: %v", step, w, err)
			}
			o.Labels = append(o.Labels, "reopen")
		case "sync":
			src := op.From % c.Writers
			if src == w {
				continue
			}
			if err := syncFrom(cl, w, src); err != nil {
				if err == world.ErrInconclusive {
					o.Inconclusive = true
					return o
				}
				return fail("step %d: sync %d<-%d: %v", step, w, src, err)
			}
			o.Labels = append(o.Labels, "sync")
		}
		for i, st := range cl.Stores {
			if err := checkDocs(tr, st, c.Queries); err != nil {
				return fail("after step %d (%s on replica %d), replica %d: %v", step, op.Kind, w, i, err)
			}
		}
	}
	for k := range single {
		if batch[k] {
			o.NonTrivial = true
		}
	}
	if c.Writers > 1 {
		o.Labels = append(o.Labels, "multi-writer")
	}
	return o
}

func TestC07(t *testing.T) { runCheck(t, "C07", genC07, execC07) }
