package checks

import (
	"context"
	"encoding/json"
	"fmt"
	"testing"
	"time"

	ipfslog "berty.tech/go-ipfs-log"
	"berty.tech/go-ipfs-log/entry"
	orbitdb "berty.tech/go-orbit-db"
	"berty.tech/go-orbit-db/iface"
	"berty.tech/go-orbit-db/stores/basestore"
	"pgregory.net/rapid"
	"verif/harness/model"
	"verif/harness/world"
)

// C01 — replicas holding the same entries show the same state, whatever order,
// batching, duplication or route delivered the entries.

type HistStep struct {
	Kind string `json:"kind"` // write | merge
	W    int    `json:"w"`
	From int    `json:"from,omitempty"`
	Key  int    `json:"key,omitempty"`
	Size int    `json:"size,omitempty"`
	Op   int    `json:"op,omitempty"` // which write operation of the store type (put / delete / batch put)
}

type Delivery struct {
	Route   string `json:"route"` // sync | topic | direct | restart | snapshot | write
	Entries []int  `json:"entries,omitempty"`
	Dup     int    `json:"dup,omitempty"`
	Wait    bool   `json:"wait,omitempty"`
	Key     int    `json:"key,omitempty"`
	Limit   int    `json:"limit,omitempty"` // restart: Load(limit) instead of Load(-1) when > 0 (the older part arrives by replication later)
	// FailHeads (delivery routes): the write of the merged heads to the replica's storage fails once while this
	// delivery is merged (simulated I/O error); what the replica then shows must still be the state of the
	// entries it holds
	FailHeads bool `json:"fail_heads,omitempty"`
}

type PlanC01 struct {
	Steps   []Delivery `json:"steps"`
	Gated   bool       `json:"gated,omitempty"`
	Release []int      `json:"release,omitempty"`
}

type CaseC01 struct {
	Type    string     `json:"type"`
	Authors int        `json:"authors"`
	Hist    []HistStep `json:"hist"`
	Plans   []PlanC01  `json:"plans"`
}

func genHist(rt *rapid.T, authors, maxSteps int) []HistStep {
	n := rapid.IntRange(2, maxSteps).Draw(rt, "nhist")
	var hs []HistStep
	for i := 0; i < n; i++ {
		kinds := []string{"write", "write", "write"}
		if authors > 1 {
			kinds = append(kinds, "merge")
		}
		h := HistStep{Kind: rapid.SampledFrom(kinds).Draw(rt, "hkind"), W: rapid.IntRange(0, authors-1).Draw(rt, "hw")}
		if h.Kind == "merge" {
			h.From = rapid.IntRange(0, authors-1).Draw(rt, "hfrom")
		} else {
			h.Key = rapid.IntRange(0, 3).Draw(rt, "hkey")
			h.Size = rapid.SampledFrom([]int{0, 1, 3, 40}).Draw(rt, "hsize")
			h.Op = rapid.IntRange(0, 4).Draw(rt, "hop")
		}
		hs = append(hs, h)
	}
	return hs
}

func genC01(rt *rapid.T) CaseC01 {
	c := CaseC01{
		Type:    rapid.SampledFrom([]string{"eventlog", "keyvalue", "docstore"}).Draw(rt, "type"),
		Authors: rapid.IntRange(1, 4).Draw(rt, "authors"),
	}
	maxH := 16
	if thorough() {
		maxH = 40
	}
	c.Hist = genHist(rt, c.Authors, maxH)
	nobs := rapid.IntRange(2, 3).Draw(rt, "observers")
	for o := 0; o < nobs; o++ {
		var p PlanC01
		n := rapid.IntRange(0, 7).Draw(rt, "nsteps")
		for i := 0; i < n; i++ {
			d := Delivery{Route: rapid.SampledFrom([]string{"sync", "sync", "topic", "topic", "direct", "direct", "restart", "snapshot", "write", "loadmore"}).Draw(rt, "route")}
			switch d.Route {
			case "sync", "topic", "direct", "loadmore":
				d.Entries = rapid.SliceOfN(rapid.IntRange(0, 200), 1, 4).Draw(rt, "entries")
				d.Dup = rapid.IntRange(0, 2).Draw(rt, "dup")
				d.Wait = rapid.Bool().Draw(rt, "wait")
				if rapid.IntRange(0, 5).Draw(rt, "failHeads") == 0 {
					d.FailHeads, d.Wait = true, true
				}
			case "write":
				d.Key = rapid.IntRange(0, 3).Draw(rt, "key")
			case "restart":
				if rapid.IntRange(0, 2).Draw(rt, "limited") == 0 {
					d.Limit = rapid.IntRange(1, 4).Draw(rt, "limit")
				}
			}
			p.Steps = append(p.Steps, d)
		}
		p.Gated = rapid.Bool().Draw(rt, "gated")
		if p.Gated {
			p.Release = rapid.SliceOfN(rapid.IntRange(0, 60), 0, 20).Draw(rt, "release")
		}
		c.Plans = append(c.Plans, p)
	}
	return c
}

// headsMessage builds the wire form of a head announcement.
func headsMessage(addr string, heads []ipfslog.Entry) ([]byte, error) {
	hs := make([]*entry.Entry, 0, len(heads))
	for _, h := range heads {
		e, ok := h.(*entry.Entry)
		if !ok {
			return nil, fmt.Errorf("not an *entry.Entry")
		}
		hs = append(hs, e)
	}
	return json.Marshal(&iface.MessageExchangeHeads{Address: addr, Heads: hs})
}

// buildHistory runs the authors' history; authors are peers 0..authors-1 of cl.
func buildHistory(ctx context.Context, cl *world.Cluster, tr *tracker, typ string, authors int, hist []HistStep, cnt *int) (forks bool, out *Outcome) {
	for i, h := range hist {
		w := h.W % authors
		switch h.Kind {
		case "write":
			s := cl.Stores[w]
			before := hashSetOf(s)
			ops, err := writeHist(ctx, s, typ, h, *cnt)
			*cnt++
			if err != nil {
				return false, fail("history step %d: write failed: %v", i, err)
			}
			if err := tr.noteWrites(s, w, before, ops); err != nil {
				return false, fail("history step %d: %v", i, err)
			}
		case "merge":
			src := h.From % authors
			if src == w || cl.Stores[src].OpLog().Len() == 0 {
				continue
			}
			if err := syncFrom(cl, w, src); err != nil {
				if err == world.ErrInconclusive {
					return false, &Outcome{Inconclusive: true}
				}
				return false, fail("history step %d: merge: %v", i, err)
			}
		}
	}
	// a fork: two entries neither in the other's past
	for a, pa := range tr.past {
		for b, pb := range tr.past {
			if a != b && !pa[b] && !pb[a] {
				return true, nil
			}
		}
	}
	return false, nil
}

func execC01(c CaseC01) *Outcome {
	ctx := context.Background()
	o := &Outcome{}
	world.ResetHooks()
	A := c.Authors
	nobs := len(c.Plans)
	N := A + nobs
	no := false
	// authors first (replication off), observers opened afterwards with replication on
	openOn := []int{}
	for i := 1; i < A; i++ {
		openOn = append(openOn, i)
	}
	cl, err := world.NewCluster(ctx, world.ClusterOpts{N: N, Type: c.Type, Replicate: &no, OpenOn: openOn})
	if err != nil {
		return fail("harness: cluster: %v", err)
	}
	defer cl.Close()
	// observers do not talk to each other until the final phase
	for i := A; i < N; i++ {
		for j := i + 1; j < N; j++ {
			cl.W.Cut(i, j)
		}
	}
	for i := A; i < N; i++ {
		s, err := cl.W.Peers[i].DB.Open(ctx, cl.Addr, &orbitdb.CreateDBOptions{})
		if err != nil {
			return fail("harness: open observer: %v", err)
		}
		cl.Stores[i] = s
		if err := s.Load(ctx, -1); err != nil {
			return fail("harness: load observer: %v", err)
		}
	}
	tr := newTracker()
	cnt := 0
	forks, out := buildHistory(ctx, cl, tr, c.Type, A, c.Hist, &cnt)
	if out != nil {
		return out
	}
	// entries in write order, as real entry objects (taken from the authors' logs)
	entryOf := map[string]ipfslog.Entry{}
	for i := 0; i < A; i++ {
		for _, e := range cl.Stores[i].OpLog().GetEntries().Slice() {
			entryOf[e.GetHash().String()] = e
		}
	}
	if len(tr.seq) == 0 {
		return o
	}
	authorSeq := append([]string{}, tr.seq...)

	limited := false
	routesUsed := map[string]bool{}
	plansDiffer := false
	for oi, plan := range c.Plans {
		pi := A + oi
		p := cl.W.Peers[pi]
		if oi > 0 {
			a, _ := json.Marshal(plan)
			b, _ := json.Marshal(c.Plans[0])
			if string(a) != string(b) {
				plansDiffer = true
			}
		}
		if plan.Gated {
			p.SetGate(true)
		}
		relIdx := 0
		releaseSome := func(n int) {
			for k := 0; k < n; k++ {
				idx := 0
				if relIdx < len(plan.Release) {
					idx = plan.Release[relIdx]
				}
				relIdx++
				if !p.ReleaseParked(idx) {
					return
				}
			}
		}
		settle := func() bool {
			// with gating on, keep releasing until nothing is parked and the store rests
			deadline := time.Now().Add(claimTimeout)
			for time.Now().Before(deadline) {
				if plan.Gated && len(p.Parked()) > 0 {
					releaseSome(1)
					continue
				}
				if cl.W.WaitQuiescent([]iface.Store{cl.Stores[pi]}, nil, 30*time.Millisecond) && len(p.Parked()) == 0 {
					return true
				}
			}
			return false
		}
		for si, d := range plan.Steps {
			s := cl.Stores[pi]
			switch d.Route {
			case "sync", "topic", "direct", "loadmore":
				var heads []ipfslog.Entry
				for _, ei := range d.Entries {
					heads = append(heads, entryOf[authorSeq[ei%len(authorSeq)]])
				}
				heads, err := cloneHeads(heads)
				if err != nil {
					return fail("harness: %v", err)
				}
				if d.FailHeads {
					p.Disk.FailPuts("_remoteHeads", 1)
				}
				for rep := 0; rep <= d.Dup; rep++ {
					route := d.Route
					if route == "loadmore" && plan.Gated {
						route = "sync" // LoadMoreFrom returns when the fetch is over: not with every fetch parked
					}
					switch route {
					case "loadmore":
						hs, _ := cloneHeads(heads)
						world.LoadMoreFrom(ctx, s, hs)
					case "sync":
						hs, _ := cloneHeads(heads)
						if err := s.Sync(ctx, hs); err != nil {
							return fail("observer %d step %d: Sync of valid heads returned %v", oi, si, err)
						}
					case "topic":
						msg, err := headsMessage(cl.Addr, heads)
						if err != nil {
							return fail("harness: %v", err)
						}
						if !cl.W.InjectTopic(pi, cl.Addr, msg) {
							return fail("harness: observer %d is not subscribed to the topic", oi)
						}
					case "direct":
						msg, err := headsMessage(cl.Addr, heads)
						if err != nil {
							return fail("harness: %v", err)
						}
						if !cl.W.InjectDirect(0, pi, msg) {
							return fail("harness: observer %d has no direct channel", oi)
						}
					}
				}
				routesUsed[d.Route] = true
				if plan.Gated {
					releaseSome(1 + si%3)
				}
				if d.Wait && !settle() {
					o.Inconclusive = true
					return o
				}
				if d.FailHeads {
					if p.Disk.PendingPutFaults() == 0 {
						o.Labels = append(o.Labels, "heads-write-failed-during-merge")
					}
					p.Disk.ClearPutFaults()
				}
				if d.Wait && s.OpLog().Values().Len() != s.OpLog().Len() {
					// after a bounded restart the replica's log has a hole: older entries that arrive below it are
					// held but are neither heads (the newest entry's skip references name them) nor reachable through
					// parent links, so the listing does not cover what is held; "the state of the entries it holds" has
					// no single reading until the hole is filled (the final phase does that, and is checked)
					o.Labels = append(o.Labels, "held-log-not-fully-listed(hole after a bounded restart)")
				} else if d.Wait {
					// at rest: what the replica shows is the state of exactly the entries it holds
					if out := viewIsReplay(s, c.Type, fmt.Sprintf("observer %d step %d (%s, at rest)", oi, si, d.Route)); out != nil {
						return out
					}
				}
			case "write":
				// the observer is an authorised writer too
				before := hashSetOf(s)
				op, err := writeAny(ctx, s, c.Type, d.Key, 2, cnt)
				cnt++
				if err != nil {
					return fail("observer %d step %d: local write failed: %v", oi, si, err)
				}
				// entries merged concurrently may also have appeared: pick the one authored here
				var mine []ipfslog.Entry
				for _, e := range s.OpLog().GetEntries().Slice() {
					h := e.GetHash().String()
					if !before[h] && tr.ents[h].Hash == "" && string(e.GetIdentity().ID) == s.Identity().ID {
						mine = append(mine, e)
					}
				}
				if len(mine) != 1 {
					return fail("observer %d step %d: expected one new local entry, found %d", oi, si, len(mine))
				}
				h := mine[0].GetHash().String()
				tr.ents[h] = entOf(mine[0])
				tr.ops[h] = op
				tr.author[h] = pi
				past := map[string]bool{}
				for _, n := range mine[0].GetNext() {
					past[n.String()] = true // direct parents are enough for the order check (transitive via their own past)
					for k := range tr.past[n.String()] {
						past[k] = true
					}
				}
				tr.past[h] = past
				tr.seq = append(tr.seq, h)
				entryOf[h] = mine[0]
				routesUsed["write"] = true
			case "restart":
				if plan.Gated {
					p.SetGate(false)
				}
				if !settle() {
					o.Inconclusive = true
					return o
				}
				amount := -1
				if d.Limit > 0 {
					amount = d.Limit
					limited = true
					// the replica first holds everything the authors have (so that the bounded load leaves a part out)
					for a := 0; a < A; a++ {
						if cl.Stores[a].OpLog().Len() == 0 {
							continue
						}
						// (every entry is announced, not only the heads: after an earlier bounded load the
						// replica holds the heads already and an announcement of them alone brings nothing)
						if err := syncAllFrom(cl, pi, a); err != nil {
							if err == world.ErrInconclusive {
								o.Inconclusive = true
								return o
							}
							return fail("observer %d step %d: %v", oi, si, err)
						}
					}
				}
				if err := cl.ReopenLimit(ctx, pi, amount); err != nil {
					return fail("observer %d step %d: restart+Load(%d) failed: %v", oi, si, amount, err)
				}
				if plan.Gated {
					p.SetGate(true)
				}
				routesUsed["restart"] = true
			case "snapshot":
				if plan.Gated {
					p.SetGate(false)
				}
				if !settle() {
					o.Inconclusive = true
					return o
				}
				if s.OpLog().Len() == 0 {
					continue
				}
				if _, err := basestore.SaveSnapshot(ctx, s); err != nil {
					o.Labels = append(o.Labels, "snapshot-refused")
					continue
				}
				p.StopInstance()
				db, err := p.StartInstance(ctx)
				if err != nil {
					return fail("harness: restart: %v", err)
				}
				s1, err := db.Open(ctx, cl.Addr, &orbitdb.CreateDBOptions{})
				if err != nil {
					return fail("harness: reopen: %v", err)
				}
				cl.Stores[pi] = s1
				if err := s1.LoadFromSnapshot(ctx); err != nil {
					return fail("observer %d step %d: LoadFromSnapshot failed: %v", oi, si, err)
				}
				if plan.Gated {
					p.SetGate(true)
				}
				routesUsed["snapshot"] = true
			}
		}
		if plan.Gated {
			// drain what is parked in the drawn order, then open the gate
			for len(p.Parked()) > 0 && relIdx < len(plan.Release)+40 {
				releaseSome(1)
				time.Sleep(100 * time.Microsecond)
			}
			p.SetGate(false)
		}
	}

	// final phase: every replica is announced the true heads of every replica
	universe := map[string]bool{}
	for h := range tr.ents {
		universe[h] = true
	}
	for i := A; i < N; i++ {
		for j := i + 1; j < N; j++ {
			cl.W.Heal(i, j) // observers now exchange heads on connect as well
		}
	}
	all := append([]int{}, seq(N)...)
	for _, dst := range all {
		for _, src := range all {
			if src == dst || cl.Stores[src].OpLog().Len() == 0 {
				continue
			}
			hs, err := cloneHeads(world.Heads(cl.Stores[src]))
			if err != nil {
				return fail("harness: %v", err)
			}
			if err := cl.Stores[dst].Sync(ctx, hs); err != nil {
				return fail("final phase: Sync of valid heads returned %v", err)
			}
		}
	}
	if limited {
		// a replica that loaded only the newest part of its log holds the heads already: the older part
		// reaches it when older entries are announced (a lagging peer does that), so announce everything
		// (once the heads announced above have been merged, so that this part arrives on its own)
		if !cl.W.WaitQuiescent(cl.Open(), nil, claimTimeout) {
			o.Inconclusive = true
			return o
		}
		var every []ipfslog.Entry
		for _, h := range tr.seq {
			if e, ok := entryOf[h]; ok {
				every = append(every, e)
			}
		}
		for _, dst := range all {
			for i := 0; i < len(every); i += 6 {
				j := i + 6
				if j > len(every) {
					j = len(every)
				}
				hs, err := cloneHeads(every[i:j])
				if err != nil {
					return fail("harness: %v", err)
				}
				if err := cl.Stores[dst].Sync(ctx, hs); err != nil {
					return fail("final phase: Sync of valid entries returned %v", err)
				}
			}
		}
		o.Labels = append(o.Labels, "limited-load-then-older-part-by-replication")
	}
	// two rounds are needed for entries that reached a source late; loop until stable
	complete := func() bool {
		for i := 0; i < N; i++ {
			have := hashSetOf(cl.Stores[i])
			for h := range universe {
				if !have[h] {
					return false
				}
			}
		}
		return true
	}
	for round := 0; round < 4 && !complete(); round++ {
		if !cl.W.WaitQuiescent(cl.Open(), nil, claimTimeout) {
			o.Inconclusive = true
			return o
		}
		for _, dst := range all {
			for _, src := range all {
				if src == dst {
					continue
				}
				hs, _ := cloneHeads(world.Heads(cl.Stores[src]))
				_ = cl.Stores[dst].Sync(ctx, hs)
			}
		}
	}
	if !cl.W.WaitQuiescent(cl.Open(), nil, claimTimeout) {
		o.Inconclusive = true
		return o
	}
	if !complete() {
		// delivery incomplete is C02/C05's business; here it only means the generator did not make the sets equal
		o.Labels = append(o.Labels, "delivery-incomplete")
		o.Inconclusive = true
		return o
	}
	// compare everything
	refOrder, err := tr.modelOrder(universe)
	if err != nil {
		return fail("%v", err)
	}
	var ents []model.Ent
	for h := range universe {
		ents = append(ents, tr.ents[h])
	}
	refHeads := model.Heads(ents)
	refView, err := viewOf(cl.Stores[0], c.Type)
	if err != nil {
		return fail("view: %v", err)
	}
	for i := 0; i < N; i++ {
		s := cl.Stores[i]
		name := fmt.Sprintf("replica %d", i)
		if i >= A {
			name = fmt.Sprintf("observer %d", i-A)
		}
		if got := world.HashSet(s); len(got) != len(universe) {
			return fail("%s holds %d entries, the universe has %d", name, len(got), len(universe))
		}
		if got := world.Hashes(s); !eqStrings(got, refOrder) {
			return fail("%s: Values() order differs from the (time,id) order of the same entry set: %v vs %v", name, shortAll(got), shortAll(refOrder))
		}
		if got := world.HeadHashes(s); !eqStrings(got, refHeads) {
			return fail("%s: heads %v differ from the heads of the same entry set %v", name, shortAll(got), shortAll(refHeads))
		}
		v, err := viewOf(s, c.Type)
		if err != nil {
			return fail("%s: view: %v", name, err)
		}
		if !eqStrings(v, refView) {
			return fail("%s shows %v, replica 0 (same entries) shows %v", name, v, refView)
		}
	}
	// and against the model replay
	if c.Type != "eventlog" {
		want := model.Replay(tr.opsIn(refOrder))
		var exp []string
		for k, v := range want {
			if c.Type == "keyvalue" {
				exp = append(exp, fmt.Sprintf("%s=%x", k, sha(v)))
			} else {
				var d map[string]interface{}
				_ = json.Unmarshal(v, &d)
				b, _ := json.Marshal(d)
				exp = append(exp, fmt.Sprintf("%x", sha(b)))
			}
		}
		sortStrings(exp)
		if !eqStrings(refView, exp) {
			return fail("all replicas agree but differ from the last-writer-wins replay of the entry set: %v vs %v", refView, exp)
		}
	}
	o.NonTrivial = forks && plansDiffer
	if forks {
		o.Labels = append(o.Labels, "history-has-fork")
	}
	for r := range routesUsed {
		o.Labels = append(o.Labels, "route:"+r)
	}
	return o
}

// viewIsReplay: the view the store shows equals the fold of the entries its log holds.
func viewIsReplay(s iface.Store, typ, where string) *Outcome {
	want, err := replayOfLog(s, typ)
	if err != nil {
		return fail("%s: harness: %v", where, err)
	}
	got, err := viewOf(s, typ)
	if err != nil {
		return fail("%s: reading the view failed: %v", where, err)
	}
	if !eqStrings(got, want) {
		return fail("%s: the replica holds %d entries whose state is %v, it shows %v", where, s.OpLog().Len(), want, got)
	}
	return nil
}

func TestC01(t *testing.T) { runCheck(t, "C01", genC01, execC01) }

// writeHist issues the write operation selected by the history step: besides plain puts, deletes on
// key-value and document stores and batch puts on document stores (a refused delete of an absent
// document writes nothing).
func writeHist(ctx context.Context, s iface.Store, typ string, h HistStep, tag int) ([]model.Op, error) {
	k := fmt.Sprintf("k%d", h.Key)
	switch {
	case typ == "keyvalue" && h.Op == 2:
		_, err := s.(iface.KeyValueStore).Delete(ctx, k)
		return []model.Op{{Kind: "DEL", Key: k}}, err
	case typ == "docstore" && h.Op == 2:
		if _, err := s.(iface.DocumentStore).Delete(ctx, k); err != nil {
			return nil, nil
		}
		return []model.Op{{Kind: "DEL", Key: k}}, nil
	case typ == "docstore" && h.Op >= 3:
		keys := []int{h.Key, h.Key + 1}
		if h.Op == 4 {
			keys = []int{h.Key + 1, h.Key, h.Key + 2}
		}
		var vals []interface{}
		mop := model.Op{Kind: "PUTALL"}
		for i, ki := range keys {
			d := map[string]interface{}{"_id": fmt.Sprintf("k%d", ki%5), "data": fmt.Sprintf("batch-%d-%d", tag, i), "tag": tag}
			vals = append(vals, d)
			mop.Docs = append(mop.Docs, model.Doc{Key: fmt.Sprintf("k%d", ki%5), Val: docBytes(d)})
		}
		_, err := s.(iface.DocumentStore).PutAll(ctx, vals)
		return []model.Op{mop}, err
	}
	op, err := writeAny(ctx, s, typ, h.Key, h.Size, tag)
	return []model.Op{op}, err
}
