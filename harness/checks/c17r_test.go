package checks

import (
	"context"

	ipfslog "berty.tech/go-ipfs-log"
	logiface "berty.tech/go-ipfs-log/iface"
	"fmt"
	"sync"
	"testing"
	"time"

	"berty.tech/go-orbit-db/iface"
	"pgregory.net/rapid"
	"verif/harness/world"
)

// C17 / C06 / C07 — a writer (or a merge) preempted between walking the log and applying what it read to the
// view, in the key-value and document indexes (hook point index.update.walked, fired by the index itself on the
// goroutine that updates it). While it is held there other write calls run - to completion if the code lets them
// (an index that walks the log under its lock makes them wait: then they finish after the release). At rest every
// acknowledged write is in the log and the view is the last-writer-wins replay of the log.

type CaseC17r struct {
	Type string `json:"type"` // keyvalue | docstore | eventlog (eventlog: first = update only)
	Pre  int    `json:"pre"`
	// First: write | merge (a real call of the store, held at the hook point) | update: the harness issues the
	// very call that ends every write and merge - Index().UpdateIndex(OpLog(), nil) - with the log wrapped so that
	// its first Values() is held right after it has returned: a view update preempted after its walk, for any
	// index implementation, hook or not (an index that does not walk the log in UpdateIndex is simply not held)
	First  string `json:"first"`
	Remote int    `json:"remote"` // entries of the other writer (merge)
	Second []int  `json:"second"` // keys written while the first operation is held (the first writes key 0)
}

func genC17r(rt *rapid.T) CaseC17r {
	c := CaseC17r{
		Type:   rapid.SampledFrom([]string{"keyvalue", "docstore", "eventlog"}).Draw(rt, "type"),
		Pre:    rapid.IntRange(0, 4).Draw(rt, "pre"),
		First:  rapid.SampledFrom([]string{"write", "write", "merge", "update"}).Draw(rt, "first"),
		Remote: rapid.IntRange(1, 3).Draw(rt, "remote"),
		Second: rapid.SliceOfN(rapid.IntRange(0, 2), 1, 3).Draw(rt, "second"),
	}
	if c.Type == "eventlog" {
		c.First = "update" // (its index has no hook point: it does not walk the log when it is updated)
	}
	return c
}

// gatedLog is the store's own log; its first Values() call is held right after it has returned its result.
type gatedLog struct {
	ipfslog.Log
	once     sync.Once
	computed chan struct{}
	release  chan struct{}
}

func (g *gatedLog) Values() logiface.IPFSLogOrderedEntries {
	v := g.Log.Values()
	g.once.Do(func() {
		close(g.computed)
		<-g.release
	})
	return v
}

func execC17r(c CaseC17r) *Outcome {
	ctx, cancel := context.WithCancel(context.Background())
	defer cancel()
	o := &Outcome{}
	world.ResetHooks()
	no := false
	cl, err := world.NewCluster(ctx, world.ClusterOpts{N: 2, Type: c.Type, Replicate: &no})
	if err != nil {
		return fail("harness: cluster: %v", err)
	}
	defer cl.Close()
	s0 := cl.Stores[0]
	cnt := 0
	var acked []string
	for i := 0; i < c.Pre; i++ {
		h, err := writeReturningHash(ctx, s0, c.Type, i%3, 5, cnt)
		cnt++
		if err != nil {
			return fail("pre-write failed: %v", err)
		}
		acked = append(acked, h)
	}
	if c.First == "merge" {
		for i := 0; i < c.Remote; i++ {
			if _, err := writeReturningHash(ctx, cl.Stores[1], c.Type, i%3, 5, 1000+cnt); err != nil {
				return fail("remote write failed: %v", err)
			}
			cnt++
		}
	}
	// the first index update of store 0 from now on is held after it has walked the log
	var mu sync.Mutex
	armed := true
	parkedCh := make(chan struct{})
	release := make(chan struct{})
	released := false
	releaseIt := func() {
		mu.Lock()
		if !released {
			released = true
			close(release)
		}
		mu.Unlock()
	}
	defer releaseIt()
	remove := world.AddHook(func(name string, subject interface{}, args []interface{}) {
		if name != "index.update.walked" || subject != interface{}(s0.Index()) {
			return
		}
		mu.Lock()
		if !armed {
			mu.Unlock()
			return
		}
		armed = false
		mu.Unlock()
		close(parkedCh)
		<-release
	})
	defer remove()

	type res struct {
		h   string
		err error
	}
	firstDone := make(chan res, 1)
	if c.First == "update" {
		mu.Lock()
		armed = false // (the hook point is not used: the wrapped log is the park point)
		mu.Unlock()
		gl := &gatedLog{Log: s0.OpLog(), computed: parkedCh, release: release}
		go func() {
			err := s0.Index().UpdateIndex(gl, nil)
			gl.once.Do(func() {}) // an index that did not walk the log must not hold a later reader
			firstDone <- res{"", err}
		}()
	}
	go func() {
		if c.First == "update" {
			return
		}
		if c.First == "write" {
			h, err := writeReturningHash(ctx, s0, c.Type, 0, 5, 5000)
			firstDone <- res{h, err}
			return
		}
		firstDone <- res{"", syncFrom(cl, 0, 1)}
	}()
	held := true
	select {
	case <-parkedCh:
	case r := <-firstDone:
		if r.err != nil {
			return fail("the first operation (%s) failed: %v", c.First, r.err)
		}
		if c.First != "update" {
			return fail("harness: the first operation (%s) ended without updating the view", c.First)
		}
		held = false // this index does not walk the log when it is updated
		firstDone <- r
	case <-time.After(25 * time.Second):
		o.Inconclusive = true
		return o
	}
	secondDone := make(chan res, len(c.Second))
	go func() {
		for i, k := range c.Second {
			h, err := writeReturningHash(ctx, s0, c.Type, k, 5, 6000+i)
			secondDone <- res{h, err}
		}
	}()
	got, overlapped := 0, 0
	waitFor := 300 * time.Millisecond
	if !held {
		waitFor = 20 * time.Second
	}
	wait := time.After(waitFor) // a schedule choice: writes that wait for a lock the held one has finish later
loop:
	for got < len(c.Second) {
		select {
		case r := <-secondDone:
			if r.err != nil {
				return fail("a write made while another view update was held failed: %v", r.err)
			}
			acked = append(acked, r.h)
			got++
			overlapped++
		case <-wait:
			break loop
		}
	}
	releaseIt()
	for got < len(c.Second) {
		select {
		case r := <-secondDone:
			if r.err != nil {
				return fail("a write failed: %v", r.err)
			}
			acked = append(acked, r.h)
			got++
		case <-time.After(20 * time.Second):
			o.Inconclusive = true
			return o
		}
	}
	select {
	case r := <-firstDone:
		if r.err == world.ErrInconclusive {
			o.Inconclusive = true
			return o
		}
		if r.err != nil {
			return fail("the first operation (%s) failed: %v", c.First, r.err)
		}
		if r.h != "" {
			acked = append(acked, r.h)
		}
	case <-time.After(25 * time.Second):
		o.Inconclusive = true
		return o
	}
	if !cl.W.WaitQuiescent([]iface.Store{s0}, nil, 20*time.Second) {
		o.Inconclusive = true
		return o
	}
	have := hashSetOf(s0)
	for _, h := range acked {
		if !have[h] {
			return fail("acknowledged write %s is not in the log at rest", short(h))
		}
	}
	where := fmt.Sprintf("at rest, after a %s was held between walking the log and applying it to the view while %d write(s) completed", c.First, overlapped)
	if out := viewIsReplay(s0, c.Type, where); out != nil {
		return out
	}
	if !held {
		o.Labels = append(o.Labels, "index-does-not-walk-the-log-at-update")
		return o
	}
	o.NonTrivial = true // a view update was held after its walk of the log while other write calls were in flight
	o.Labels = append(o.Labels, "held-after-walk:"+c.First)
	if overlapped > 0 {
		o.Labels = append(o.Labels, "writes-completed-while-held")
	} else {
		o.Labels = append(o.Labels, "writes-waited-for-the-held-update")
	}
	return o
}

func TestC17IndexWalk(t *testing.T) { runCheck(t, "C17", genC17r, execC17r) }

// TestC08IndexWalk: the same scenario on event logs decides C08's "never removes an entry [from the listing]": a
// view update preempted after its walk of the log and overtaken by later writes must not put the older listing back.
func TestC08IndexWalk(t *testing.T) {
	runCheck(t, "C08", func(rt *rapid.T) CaseC17r {
		c := genC17r(rt)
		c.Type, c.First = "eventlog", "update"
		return c
	}, execC17r)
}

// TestC06IndexWalk / TestC07IndexWalk: the same scenario decides "the view equals the last-writer-wins replay of
// the log" for key-value and document stores when view updates overlap.
func TestC06IndexWalk(t *testing.T) {
	runCheck(t, "C06", func(rt *rapid.T) CaseC17r {
		c := genC17r(rt)
		c.Type = "keyvalue"
		if c.First == "update" && rapid.Bool().Draw(rt, "real") {
			c.First = "write"
		}
		return c
	}, execC17r)
}

func TestC07IndexWalk(t *testing.T) {
	runCheck(t, "C07", func(rt *rapid.T) CaseC17r {
		c := genC17r(rt)
		c.Type = "docstore"
		if c.First == "update" && rapid.Bool().Draw(rt, "real") {
			c.First = "merge"
		}
		return c
	}, execC17r)
}
