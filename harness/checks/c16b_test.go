package checks

import (
	"context"
	"fmt"
	"sync"
	"testing"
	"time"

	ipfslog "berty.tech/go-ipfs-log"
	"berty.tech/go-orbit-db/iface"
	"berty.tech/go-orbit-db/stores"
	"berty.tech/go-orbit-db/stores/operation"
	"github.com/libp2p/go-libp2p/p2p/host/eventbus"
	"pgregory.net/rapid"
	"verif/harness/world"
)

// C16 (b) — store events: one write event per write, one replicated event per
// merged batch, never ahead of the state they announce; the legacy subscriber
// sees the same sequence however slowly it reads.

type StepC16b struct {
	Kind string `json:"kind"` // local | remote | merge
	W    int    `json:"w,omitempty"`
	N    int    `json:"n,omitempty"`
	Key  int    `json:"key,omitempty"`
}

type CaseC16b struct {
	Type      string     `json:"type"`
	Others    int        `json:"others"`
	Steps     []StepC16b `json:"steps"`
	StallFor  int        `json:"stall_for"`  // legacy subscriber reads nothing until this many steps are done
	SlowEvery int        `json:"slow_every"` // legacy subscriber sleeps 1ms every n events (0: never)
}

func genC16b(rt *rapid.T) CaseC16b {
	c := CaseC16b{
		Type:   rapid.SampledFrom([]string{"eventlog", "keyvalue"}).Draw(rt, "type"),
		Others: rapid.IntRange(0, 2).Draw(rt, "others"),
	}
	n := rapid.IntRange(1, 10).Draw(rt, "nsteps")
	for i := 0; i < n; i++ {
		kinds := []string{"local", "local"}
		if c.Others > 0 {
			kinds = append(kinds, "remote", "merge", "merge")
		}
		st := StepC16b{Kind: rapid.SampledFrom(kinds).Draw(rt, "kind")}
		switch st.Kind {
		case "local":
			st.N = rapid.OneOf(rapid.IntRange(1, 4), rapid.IntRange(15, 30)).Draw(rt, "n")
			st.Key = rapid.IntRange(0, 2).Draw(rt, "key")
		case "remote":
			st.W = rapid.IntRange(1, c.Others).Draw(rt, "w")
			st.N = rapid.IntRange(1, 6).Draw(rt, "n")
			st.Key = rapid.IntRange(0, 2).Draw(rt, "key")
		case "merge":
			st.W = rapid.IntRange(1, c.Others).Draw(rt, "w")
		}
		c.Steps = append(c.Steps, st)
	}
	c.StallFor = rapid.IntRange(0, n).Draw(rt, "stall")
	c.SlowEvery = rapid.IntRange(0, 5).Draw(rt, "slow")
	return c
}

type seenEvt struct {
	kind   string // write | replicated
	hashes []string
	err    string
}

func execC16b(c CaseC16b) *Outcome {
	ctx, cancel := context.WithCancel(context.Background())
	defer cancel()
	o := &Outcome{}
	world.ResetHooks()
	no := false
	cl, err := world.NewCluster(ctx, world.ClusterOpts{N: 1 + c.Others, Type: c.Type, Replicate: &no})
	if err != nil {
		return fail("harness: cluster: %v", err)
	}
	defer cl.Close()
	s0 := cl.Stores[0]

	// what the harness wrote: per (writer,key) the sequence of values, and hash -> (writer,key,index)
	type opRef struct {
		w, key, idx int
		val         string
	}
	var mu sync.Mutex
	refs := map[string]opRef{}
	perKey := map[[2]int][]string{}

	stateCheck := func(e ipfslog.Entry) string {
		h := e.GetHash()
		if _, ok := s0.OpLog().Get(h); !ok {
			return fmt.Sprintf("entry %s announced by the event is not in the log yet", short(h.String()))
		}
		switch c.Type {
		case "eventlog":
			m1 := -1
			l, err := listHashes(s0.(iface.EventLogStore), &iface.StreamOptions{Amount: &m1})
			if err != nil {
				return "List failed: " + err.Error()
			}
			for _, x := range l {
				if x == h.String() {
					return ""
				}
			}
			return fmt.Sprintf("entry %s announced by the event is not listed yet", short(h.String()))
		default:
			op, err := operation.ParseOperation(e)
			if err != nil || op.GetKey() == nil {
				return "cannot parse the announced operation"
			}
			got, err := s0.(iface.KeyValueStore).Get(ctx, *op.GetKey())
			if err != nil {
				return "Get failed: " + err.Error()
			}
			mu.Lock()
			r, ok := refs[h.String()]
			var later []string
			if ok {
				later = append(later, perKey[[2]int{r.w, r.key}][r.idx:]...)
			}
			mu.Unlock()
			if !ok {
				// the write call has not returned to the harness yet: the value must at least be the announced one or newer; accept the announced one
				if string(got) == string(op.GetValue()) {
					return ""
				}
				return "" // cannot judge without the harness record; judged again at the end through the sequence check
			}
			for _, v := range later {
				if v == string(got) {
					return ""
				}
			}
			return fmt.Sprintf("Get(%q) = %q when the event for value %q arrived: the view does not reflect the announced entry", *op.GetKey(), got, r.val)
		}
	}

	// bus subscriber
	sub, err := s0.EventBus().Subscribe([]interface{}{new(stores.EventWrite), new(stores.EventReplicated)}, eventbus.BufSize(1024))
	if err != nil {
		return fail("harness: subscribe: %v", err)
	}
	defer sub.Close()
	var busSeen []seenEvt
	var busMu sync.Mutex
	busDone := make(chan struct{})
	go func() {
		defer close(busDone)
		for {
			select {
			case <-ctx.Done():
				return
			case e, ok := <-sub.Out():
				if !ok {
					return
				}
				var se seenEvt
				switch ev := e.(type) {
				case stores.EventWrite:
					se = seenEvt{kind: "write", hashes: []string{ev.Entry.GetHash().String()}, err: stateCheck(ev.Entry)}
				case stores.EventReplicated:
					se = seenEvt{kind: "replicated"}
					for _, en := range ev.Entries {
						se.hashes = append(se.hashes, en.GetHash().String())
						if se.err == "" {
							se.err = stateCheck(en)
						}
					}
				default:
					continue
				}
				busMu.Lock()
				busSeen = append(busSeen, se)
				busMu.Unlock()
			}
		}
	}()

	// slow legacy subscriber
	legacy := s0.Subscribe(ctx)
	var legSeen []seenEvt
	var legMu sync.Mutex
	startReading := make(chan struct{})
	go func() {
		<-startReading
		n := 0
		for e := range legacy {
			var se seenEvt
			switch ev := e.(type) {
			case stores.EventWrite:
				se = seenEvt{kind: "write", hashes: []string{ev.Entry.GetHash().String()}, err: stateCheck(ev.Entry)}
			case stores.EventReplicated:
				se = seenEvt{kind: "replicated"}
				for _, en := range ev.Entries {
					se.hashes = append(se.hashes, en.GetHash().String())
					if se.err == "" {
						se.err = stateCheck(en)
					}
				}
			default:
				continue
			}
			legMu.Lock()
			legSeen = append(legSeen, se)
			legMu.Unlock()
			n++
			if c.SlowEvery > 0 && n%c.SlowEvery == 0 {
				time.Sleep(time.Millisecond)
			}
		}
	}()
	started := false
	start := func() {
		if !started {
			started = true
			close(startReading)
		}
	}
	defer start()

	cnt := 0
	var localOrder []string
	replicatedInto0 := map[string]bool{}
	write := func(w, key, n int) error {
		s := cl.Stores[w]
		for i := 0; i < n; i++ {
			val := fmt.Sprintf("v%d", cnt)
			cnt++
			k := fmt.Sprintf("w%d-k%d", w, key)
			var h string
			// register the value before the call so that the in-handler check can find it
			mu.Lock()
			idx := len(perKey[[2]int{w, key}])
			perKey[[2]int{w, key}] = append(perKey[[2]int{w, key}], val)
			mu.Unlock()
			switch c.Type {
			case "eventlog":
				op, err := s.(iface.EventLogStore).Add(ctx, []byte(val))
				if err != nil {
					return err
				}
				h = op.GetEntry().GetHash().String()
			default:
				op, err := s.(iface.KeyValueStore).Put(ctx, k, []byte(val))
				if err != nil {
					return err
				}
				h = op.GetEntry().GetHash().String()
			}
			mu.Lock()
			refs[h] = opRef{w, key, idx, val}
			mu.Unlock()
			if w == 0 {
				localOrder = append(localOrder, h)
			}
		}
		return nil
	}
	merges := 0
	for i, st := range c.Steps {
		if i == c.StallFor {
			start()
		}
		switch st.Kind {
		case "local":
			if err := write(0, st.Key, st.N); err != nil {
				return fail("step %d: write failed: %v", i, err)
			}
		case "remote":
			if err := write(1+(st.W-1)%c.Others, st.Key, st.N); err != nil {
				return fail("step %d: write failed: %v", i, err)
			}
		case "merge":
			src := 1 + (st.W-1)%c.Others
			have := hashSetOf(s0)
			fresh := 0
			for _, h := range world.HashSet(cl.Stores[src]) {
				if !have[h] {
					fresh++
				}
			}
			if fresh == 0 {
				continue
			}
			if err := syncFrom(cl, 0, src); err != nil {
				if err == world.ErrInconclusive {
					o.Inconclusive = true
					return o
				}
				return fail("step %d: merge: %v", i, err)
			}
			for _, h := range world.HashSet(cl.Stores[src]) {
				if !have[h] {
					replicatedInto0[h] = true
				}
			}
			merges++
		}
	}
	start()
	if !cl.W.WaitQuiescent([]iface.Store{s0}, nil, 20*time.Second) {
		o.Inconclusive = true
		return o
	}
	batches := int(world.HookCount("store.loadcomplete.done", s0.Replicator()))
	wantEvents := len(localOrder) + merges
	// wait for both subscribers to have seen everything that was emitted
	world.WaitFor(func() bool {
		busMu.Lock()
		a := len(busSeen)
		busMu.Unlock()
		legMu.Lock()
		b := len(legSeen)
		legMu.Unlock()
		return a >= wantEvents && b >= wantEvents
	}, 20*time.Second)
	time.Sleep(5 * time.Millisecond)
	busMu.Lock()
	bus := append([]seenEvt{}, busSeen...)
	busMu.Unlock()
	legMu.Lock()
	leg := append([]seenEvt{}, legSeen...)
	legMu.Unlock()

	check := func(name string, seen []seenEvt) *Outcome {
		var writes []string
		repl := map[string]int{}
		nrepl := 0
		for _, se := range seen {
			if se.err != "" {
				return fail("%s subscriber: %s", name, se.err)
			}
			if se.kind == "write" {
				writes = append(writes, se.hashes...)
			} else {
				nrepl++
				for _, h := range se.hashes {
					repl[h]++
				}
			}
		}
		if !eqStrings(writes, localOrder) {
			return fail("%s subscriber saw %d write events for %d successful writes, or in a different order (%v vs %v)", name, len(writes), len(localOrder), shortAll(writes), shortAll(localOrder))
		}
		// one replicated event per merged batch: every merge step of the case brought new entries, and the
		// replicator cannot have handed over more batches than the hook counted
		if nrepl < merges || nrepl > batches {
			return fail("%s subscriber saw %d replicated events for %d merges that brought new entries (%d batches handed over by the replicator)", name, nrepl, merges, batches)
		}
		for h := range replicatedInto0 {
			if repl[h] == 0 {
				return fail("%s subscriber: replicated entry %s was never announced by a replicated event", name, short(h))
			}
		}
		return nil
	}
	if out := check("event-bus", bus); out != nil {
		return out
	}
	if out := check("legacy", leg); out != nil {
		return out
	}
	if len(bus) != len(leg) {
		return fail("legacy subscriber saw %d store events, the bus subscriber %d", len(leg), len(bus))
	}
	for i := range bus {
		if bus[i].kind != leg[i].kind || !eqStrings(bus[i].hashes, leg[i].hashes) {
			return fail("legacy subscriber's event %d differs from the emission order seen on the bus", i)
		}
	}
	o.NonTrivial = merges > 0 && len(localOrder) > 16
	if merges > 0 {
		o.Labels = append(o.Labels, "with-replication")
	}
	if len(localOrder) > 16 {
		o.Labels = append(o.Labels, "more-writes-than-channel-buffer")
	}
	if c.StallFor > 0 {
		o.Labels = append(o.Labels, "legacy-stalled")
	}
	return o
}

func TestC16Store(t *testing.T) { runCheck(t, "C16", genC16b, execC16b) }
