package checks

import (
	"context"
	"fmt"
	"testing"
	"time"

	orbitdb "berty.tech/go-orbit-db"
	"berty.tech/go-orbit-db/iface"
	"pgregory.net/rapid"
	"verif/harness/model"
	"verif/harness/world"
)

// C11 (load requests) — a Load of the persisted log that is cancelled part-way, then a later Load of the same
// heads on the same open store: the later one must complete and make every entry visible.

type CaseC11L struct {
	Type     string    `json:"type"`
	Others   int       `json:"others"`
	Steps    []StepC15 `json:"steps"`     // local | remote | merge, as in C15
	CancelAt int       `json:"cancel_at"` // block reads of the first Load let through before its context is cancelled
	// Fail: instead of a cancellation, the next block read fails (an I/O error with a live context) and every
	// other read of the first Load is served
	Fail bool `json:"fail,omitempty"`
}

// keyLoadReadFailure: known finding - see known_findings.txt
const keyLoadReadFailure = "C11-load-read-failure-hole"

func genC11L(rt *rapid.T) CaseC11L {
	c := CaseC11L{
		Type:     rapid.SampledFrom([]string{"eventlog", "keyvalue"}).Draw(rt, "type"),
		Others:   rapid.IntRange(0, 1).Draw(rt, "others"),
		CancelAt: rapid.IntRange(0, 12).Draw(rt, "cancelAt"),
		Fail:     rapid.IntRange(0, 2).Draw(rt, "fail") == 0,
	}
	n := rapid.IntRange(1, 5).Draw(rt, "nsteps")
	for i := 0; i < n; i++ {
		st := StepC15{Kind: rapid.SampledFrom([]string{"local", "local", "remote", "merge"}).Draw(rt, "kind"), W: 1}
		if st.Kind != "merge" {
			st.N = rapid.IntRange(1, 5).Draw(rt, "n")
		}
		c.Steps = append(c.Steps, st)
	}
	return c
}

func execC11L(c CaseC11L) *Outcome {
	ctx := context.Background()
	o := &Outcome{}
	world.ResetHooks()
	no := false
	cl, err := world.NewCluster(ctx, world.ClusterOpts{N: 1 + c.Others, Type: c.Type, Replicate: &no})
	if err != nil {
		return fail("harness: cluster: %v", err)
	}
	defer cl.Close()
	tr := newTracker()
	cnt := 0
	add := func(w, n int) error {
		s := cl.Stores[w]
		for i := 0; i < n; i++ {
			before := hashSetOf(s)
			op, err := writeAny(ctx, s, c.Type, cnt%3, 2, cnt)
			cnt++
			if err != nil {
				return fmt.Errorf("write failed: %v", err)
			}
			if err := tr.noteWrites(s, w, before, []model.Op{op}); err != nil {
				return err
			}
		}
		return nil
	}
	for i, st := range c.Steps {
		switch st.Kind {
		case "local":
			if err := add(0, st.N); err != nil {
				return fail("step %d: %v", i, err)
			}
		case "remote":
			if c.Others > 0 {
				if err := add(1, st.N); err != nil {
					return fail("step %d: %v", i, err)
				}
			}
		case "merge":
			if c.Others > 0 && cl.Stores[1].OpLog().Len() > 0 {
				if err := syncFrom(cl, 0, 1); err != nil {
					if err == world.ErrInconclusive {
						o.Inconclusive = true
						return o
					}
					return fail("step %d: merge: %v", i, err)
				}
			}
		}
	}
	full := world.HashSet(cl.Stores[0])
	if len(full) == 0 {
		return o
	}
	p0 := cl.W.Peers[0]
	p0.StopInstance()
	for j := 1; j <= c.Others; j++ {
		cl.W.Cut(0, j)
	}
	p0.Offline = true
	db, err := p0.StartInstance(ctx)
	if err != nil {
		return fail("harness: restart: %v", err)
	}
	s, err := db.Open(ctx, cl.Addr, &orbitdb.CreateDBOptions{Replicate: &no})
	if err != nil {
		return fail("harness: reopen: %v", err)
	}
	cl.Stores[0] = s
	// first Load: its block reads are let through one at a time, then its context is cancelled
	p0.SetGate(true)
	lctx, cancel := context.WithCancel(ctx)
	done := make(chan error, 1)
	go func() { done <- s.Load(lctx, -1) }()
	released := 0
	finished := false
	var lerr error
	until := time.Now().Add(20 * time.Second)
	for released < c.CancelAt && !finished && time.Now().Before(until) {
		select {
		case lerr = <-done:
			finished = true
		default:
			if p0.ReleaseParked(0) {
				released++
			} else {
				time.Sleep(200 * time.Microsecond)
			}
		}
	}
	if !finished {
		// wait for the next read to be outstanding (or the Load to be over), then cancel
		world.WaitFor(func() bool {
			select {
			case lerr = <-done:
				finished = true
				return true
			default:
			}
			return len(p0.Parked()) > 0
		}, 2*time.Second)
	}
	if c.Fail && !finished {
		if !p0.FailParked(0, fmt.Errorf("simulated read failure")) {
			c.Fail = false // nothing was outstanding: the Load was over
		}
	} else {
		cancel()
	}
	p0.SetGate(false)
	defer cancel()
	if !finished {
		select {
		case lerr = <-done:
		case <-time.After(20 * time.Second):
			o.Inconclusive = true
			return o
		}
	}
	partial := len(hashSetOf(s))
	firstErr := lerr
	// the later, uncancelled Load of the same heads
	if gerr := guarded("a Load after a cancelled Load", func() { lerr = s.Load(ctx, -1) }); gerr != nil {
		return fail("%v", gerr)
	}
	if lerr != nil && c.Fail {
		return fail("after a Load one of whose block reads failed (it left %d of %d entries), the next Load failed: %v", partial, len(full), lerr)
	}
	if lerr != nil {
		return fail("after a Load cancelled after %d block reads (it left %d of %d entries), the next Load failed: %v", released, partial, len(full), lerr)
	}
	have := hashSetOf(s)
	missing := 0
	for _, h := range full {
		if !have[h] {
			missing++
		}
	}
	if missing > 0 && c.Fail {
		out := fail("after a Load one of whose block reads failed (read %d; it returned %v and left %d of %d entries), the next Load of the same heads leaves %d of %d entries missing", released+1, firstErr, partial, len(full), missing, len(full))
		if isKnown(keyLoadReadFailure) {
			out.Known = keyLoadReadFailure
		}
		return out
	}
	if missing > 0 {
		return fail("after a Load cancelled after %d block reads (it left %d of %d entries), the next Load of the same heads leaves %d of %d entries missing", released, partial, len(full), missing, len(full))
	}
	if out := viewIsReplay(s, c.Type, "after the second Load"); out != nil {
		return out
	}
	if c.Fail {
		o.Labels = append(o.Labels, "first-load-had-a-failing-read")
	}
	o.NonTrivial = partial > 0 && partial < len(full)
	if partial == 0 {
		o.Labels = append(o.Labels, "cancelled-load-left-nothing")
	} else if partial < len(full) {
		o.Labels = append(o.Labels, "cancelled-load-left-a-part")
	} else {
		o.Labels = append(o.Labels, "cancelled-load-had-finished")
	}
	return o
}

func TestC11Load(t *testing.T) { runCheck(t, "C11", genC11L, execC11L) }

var _ iface.Store
