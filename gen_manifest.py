#!/usr/bin/env python3
"""Regenerates MANIFEST.json from checks_config.py (run after editing the config)."""
import json, os, subprocess, sys
ROOT = os.path.dirname(os.path.abspath(__file__))
sys.path.insert(0, ROOT)
from checks_config import CHECKS, NOT_APPLICABLE, HOOK_COMMITS

ALL = ["C%02d" % i for i in range(1, 21)]
checks = []
for pid in ALL:
    if pid not in CHECKS:
        continue
    c = CHECKS[pid]
    checks.append({
        "property_id": pid,
        "quick_cmd": "./run %s quick" % pid,
        "thorough_cmd": "./run %s thorough" % pid,
        "evidence_file": "/verif/evidence/%s.json" % pid,
        "replay_cmd_template": "./run %s --replay {path}" % pid,
        "engine": "rapid-harness",
        "level_claimed": {"category": c["level"], "text": c["level_text"], "design_ref": c.get("design_ref", "")},
        "level_note": c["level_note"],
        "technique": c["technique"],
    })
na = []
for pid in ALL:
    if pid not in CHECKS:
        na.append({"property_id": pid, "reason": NOT_APPLICABLE.get(pid, "check not built yet in this session; not claimed")})
m = {
    "version": 1,
    "setup_cmd": "./run setup",
    "hooks": {
        "guard": "verif",
        "enable": "go test -c -tags verif (the driver builds harness/checks against /repo's working tree via a replace directive)",
        "baseline_off_cmd": "cd /repo && GOFLAGS=-mod=mod GOPROXY=off GOSUMDB=off go test -json -vet=off -count=1 -timeout 25m ./...",
        "source_commits": HOOK_COMMITS,
        "add_only": True,
    },
    "engines": [{
        "name": "rapid-harness",
        "path": "/verif/harness",
        "serves_properties": [c["property_id"] for c in checks],
        "kind_free_text": "Go test binary (pgregory.net/rapid v1.3.0 generators + native go fuzz targets) driving the real go-orbit-db code inside a simulated world (offline kubo nodes, harness-owned pubsub/direct channel/block exchange/persistence, schedule points behind build tag verif); driver ./run handles build, seeds, sharding, crash confirmation, replay and evidence",
    }],
    "checks": checks,
    "not_applicable": na,
    "notes": "Every check = generated cases (rapid) or enumerated fault/schedule points executed against the real code with an explicit oracle (reference model, differential between replicas, round trip, invariant). Exit 2 = inconclusive, never a verdict. See DESIGN.md.",
}
json.dump(m, open(os.path.join(ROOT, "MANIFEST.json"), "w"), indent=1)
print("wrote MANIFEST.json with %d checks, %d not claimed" % (len(checks), len(na)))
